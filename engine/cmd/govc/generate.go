package main

import (
	"fmt"
	"go/ast"
	"go/types"
	"reflect"
	"sort"
	"strings"

	"golang.org/x/tools/go/ssa"
)

// generateContracts expands `//@ generate ...` directives into contracts, mechanically, from the
// current declarations in /repo (so a field added to a struct but forgotten in its marshaller is
// a failed obligation, not a stale contract).
//
//	generate marshal <Type> @TAG [skip=field,field]
//
// For a struct type T with json tags it writes the contracts of T.MarshalYAML and T.UnmarshalJSON:
//   - every tagged field that is not zero is emitted under its tag with its value;
//   - an omitempty field that is zero is not emitted (unless the extension map holds the key);
//   - nothing is emitted but tagged keys and extension keys;
//   - UnmarshalJSON leaves no tagged key in the extension map and keeps every other key.
func (p *Prog) generateContracts() error {
	for _, g := range p.cs.Generate {
		if len(g.Args) < 2 || (g.Args[0] != "marshal" && g.Args[0] != "refmarshal" && g.Args[0] != "fieldcopy") {
			return fmt.Errorf("%s:%d: expected: generate marshal|refmarshal|fieldcopy ...", g.File, g.Line)
		}
		var text string
		var err error
		switch g.Args[0] {
		case "refmarshal":
			text, err = p.genRefMarshal(g)
		case "fieldcopy":
			text, err = p.genFieldCopy(g)
		default:
			text, err = p.genMarshal(g)
		}
		if err != nil {
			return fmt.Errorf("%s:%d: %v", g.File, g.Line, err)
		}
		if err := p.cs.loadContractText(text, fmt.Sprintf("%s:%d(generated)", g.File, g.Line), g.Pkg); err != nil {
			return err
		}
		p.generated = append(p.generated, text)
	}
	return nil
}

type tagField struct {
	name, key string
	omit      bool
	ty        types.Type
}

func (p *Prog) genMarshal(g *GenerateDecl) (string, error) {
	pk := p.byPath[g.Pkg]
	if pk == nil {
		return "", fmt.Errorf("package %s not loaded", g.Pkg)
	}
	tname := g.Args[1]
	var tags []string
	skip := map[string]bool{}
	only := ""
	refField := "" // a field that, when set, makes the marshaller emit a bare reference object
	for _, a := range g.Args[2:] {
		switch {
		case strings.HasPrefix(a, "@"):
			tags = append(tags, a[1:])
		case strings.HasPrefix(a, "skip="):
			for _, f := range strings.Split(a[5:], ",") {
				skip[f] = true
			}
		case strings.HasPrefix(a, "only="):
			only = a[5:]
		case strings.HasPrefix(a, "unlessref="):
			refField = a[len("unlessref="):]
		}
	}
	obj := pk.Types.Scope().Lookup(tname)
	if obj == nil {
		return "", fmt.Errorf("no type %s", tname)
	}
	named, ok := obj.Type().(*types.Named)
	if !ok {
		return "", fmt.Errorf("%s is not a named type", tname)
	}
	st, ok := named.Underlying().(*types.Struct)
	if !ok {
		return "", fmt.Errorf("%s is not a struct", tname)
	}
	var fields []tagField
	hasExt := false
	var uncovered []string
	for i := 0; i < st.NumFields(); i++ {
		f := st.Field(i)
		tag := reflect.StructTag(st.Tag(i))
		js := tag.Get("json")
		if f.Name() == "Extensions" {
			hasExt = true
			continue
		}
		if js == "" || js == "-" {
			continue
		}
		parts := strings.Split(js, ",")
		key := parts[0]
		if key == "" || key == "__origin__" {
			continue
		}
		// the yaml reader/writer must use the same key
		if y := tag.Get("yaml"); y != "" && strings.Split(y, ",")[0] != key {
			return "", fmt.Errorf("field %s.%s: json key %q but yaml key %q", tname, f.Name(), key, strings.Split(y, ",")[0])
		}
		tf := tagField{name: f.Name(), key: key, ty: f.Type()}
		for _, o := range parts[1:] {
			if o == "omitempty" {
				tf.omit = true
			}
		}
		if skip[f.Name()] {
			uncovered = append(uncovered, f.Name())
			tf.ty = nil
		}
		fields = append(fields, tf)
	}
	var sb strings.Builder
	w := func(f string, a ...any) { fmt.Fprintf(&sb, "//@ "+f+"\n", a...) }
	tagLine := "tag " + strings.Join(tags, " ")

	// ---- MarshalYAML
	fnM, ptrM := p.methodOf(named, "MarshalYAML")
	viaJSON := false
	if fnM == nil {
		// the type encodes itself in MarshalJSON: build the map, hand it to json.Marshal
		fnM, ptrM = p.methodOf(named, "MarshalJSON")
		viaJSON = true
	}
	if fn, ptr := fnM, ptrM; fn != nil && only != "unmarshal" {
		recv := fn.Params[0].Name()
		mname := "MarshalYAML"
		if viaJSON {
			mname = "MarshalJSON"
		}
		key := "(" + tname + ")." + mname
		if ptr {
			key = "(*" + tname + ")." + mname
		}
		M := "result.0.(map[string]any)"
		guard := ""
		w("func %s", key)
		refType := "Ref"
		if k := strings.Index(refField, ":"); k >= 0 {
			refField, refType = refField[:k], refField[k+1:]
		}
		if viaJSON {
			M = "cast(jsonArg, type map[string]any)"
			w("  modifies jsonArg, jsonArgType")
			if refField != "" {
				w("  ensures [encodes-a-map] %s.%s == \"\" ==> jsonArgType == type map[string]any && jsonArg != 0", recv, refField)
				w("  ensures [bare-reference] %s.%s != \"\" ==> jsonArgType == type %s", recv, refField, refType)
			} else {
				w("  ensures [encodes-a-map] jsonArgType == type map[string]any && jsonArg != 0")
			}
		} else {
			w("  modifies nothing")
			w("  ensures [no-error] result.1 == nil")
			if refField == "" {
				g0 := ""
				if ptr {
					g0 = recv + " != nil ==> "
				}
				w("  ensures [returns-map] %stypeof(result.0) == type map[string]any && ptr(result.0) != 0", g0)
			}
		}
		if ptr {
			guard = recv + " != nil ==> "
			w("  ensures [nil-receiver] %s == nil ==> result.0 == nil", recv)
		}
		if refField != "" && viaJSON {
			guard = recv + "." + refField + ` == "" ==> `
		} else if refField != "" {
			guard = recv + "." + refField + ` == "" ==> `
			w("  ensures [bare-reference] %s.%s != \"\" ==> typeof(result.0) == type %s && result.0.(%s).Ref == %s.%s", recv, refField, refType, refType, recv, refField)
		}
		var known []string
		for _, f := range fields {
			known = append(known, fmt.Sprintf("k == %q", f.key))
			if f.ty == nil {
				continue
			}
			nz := nonZero(recv+"."+f.name, f.ty)
			if nz == "" {
				uncovered = append(uncovered, f.name)
				continue
			}
			w("  ensures [emits-%s] %s(%s) ==> has(%s, %q) && %s[%q] == iface(%s.%s)", f.key, guard, nz, M, f.key, M, f.key, recv, f.name)
			if f.omit && hasExt {
				// absent in the input (nil slice/map, zero scalar) => absent in the output
				z := "!(" + nz + ")"
				switch f.ty.Underlying().(type) {
				case *types.Slice, *types.Map:
					z = recv + "." + f.name + " == nil"
				}
				w("  ensures [omits-zero-%s] %s%s && !has(%s.Extensions, %q) ==> !has(%s, %q)", f.key, guard, z, recv, f.key, M, f.key)
			}
		}
		ext := "false"
		if hasExt {
			ext = "has(" + recv + ".Extensions, k)"
		}
		w("  ensures [nothing-invented] %sforall k string :: has(%s, k) ==> %s || %s", guard, M, ext, strings.Join(known, " || "))
		if hasExt {
			w("  ensures [extensions-kept] %sforall k string :: has(%s.Extensions, k) ==> has(%s, k)", guard, recv, M)
		}
		if m := mapLocal(fn); m != "" && hasRangeLoop(fn) && hasExt {
			w("  loop 0 invariant dom(%s) == seenset()", m)
		}
		w("  %s", tagLine)
	}
	// ---- UnmarshalJSON
	if fn, _ := p.methodOf(named, "UnmarshalJSON"); fn != nil && hasExt && only != "marshal" {
		recv := fn.Params[0].Name()
		data := fn.Params[1].Name()
		w("func (*%s).UnmarshalJSON", tname)
		w("  requires %s != nil", recv)
		w("  modifies *")
		var unknown []string
		for _, f := range fields {
			w("  ensures [strips-%s] result == nil ==> !has(%s.Extensions, %q)", f.key, recv, f.key)
			unknown = append(unknown, fmt.Sprintf("k != %q", f.key))
		}
		unknown = append(unknown, `k != "__origin__"`)
		w("  ensures [unknown-kept] result == nil ==> forall k string :: jsonHasKey(%s, k) && %s ==> has(%s.Extensions, k)", data, strings.Join(unknown, " && "), recv)
		w("  ensures [only-from-input] result == nil ==> forall k string :: has(%s.Extensions, k) ==> jsonHasKey(%s, k)", recv, data)
		w("  %s", tagLine)
	}
	if len(uncovered) > 0 {
		sort.Strings(uncovered)
		p.genNotes = append(p.genNotes, fmt.Sprintf("generate marshal %s: value clauses not generated for fields %s (struct-valued or skipped)", tname, strings.Join(uncovered, ", ")))
	}
	return sb.String(), nil
}

// nonZero: the condition under which a marshaller has to emit the field.
func nonZero(x string, t types.Type) string {
	switch u := t.Underlying().(type) {
	case *types.Basic:
		switch {
		case u.Info()&types.IsString != 0:
			return x + ` != ""`
		case u.Info()&types.IsBoolean != 0:
			return x
		case u.Info()&types.IsNumeric != 0:
			return x + " != 0"
		}
	case *types.Pointer, *types.Interface, *types.Signature:
		return x + " != nil"
	case *types.Slice, *types.Map:
		return "len(" + x + ") != 0"
	}
	return ""
}

func (p *Prog) methodOf(named *types.Named, name string) (*ssa.Function, bool) {
	for _, ptr := range []bool{false, true} {
		var t types.Type = named
		if ptr {
			t = types.NewPointer(named)
		}
		ms := p.ssa.MethodSets.MethodSet(t)
		for i := 0; i < ms.Len(); i++ {
			sel := ms.At(i)
			if sel.Obj().Name() != name {
				continue
			}
			fn := p.ssa.MethodValue(sel)
			if fn == nil || fn.Synthetic != "" {
				continue
			}
			_, isPtr := fn.Signature.Recv().Type().(*types.Pointer)
			return fn, isPtr
		}
	}
	return nil, false
}

// mapLocal: the source name of the first local map[string]any the function makes.
func mapLocal(fn *ssa.Function) string {
	for _, b := range fn.Blocks {
		for _, ins := range b.Instrs {
			d, ok := ins.(*ssa.DebugRef)
			if !ok || d.IsAddr {
				continue
			}
			if _, ok := d.X.(*ssa.MakeMap); !ok {
				continue
			}
			if id, ok := d.Expr.(*ast.Ident); ok {
				return id.Name
			}
		}
	}
	return ""
}

func hasRangeLoop(fn *ssa.Function) bool {
	for _, b := range fn.Blocks {
		for _, ins := range b.Instrs {
			if _, ok := ins.(*ssa.Range); ok {
				return true
			}
		}
	}
	return false
}

// genRefMarshal: `generate refmarshal <XRef> @TAG` - the reference wrappers emit only the
// reference when one is set, otherwise what the value's own marshaller emits.
func (p *Prog) genRefMarshal(g *GenerateDecl) (string, error) {
	pk := p.byPath[g.Pkg]
	tname := g.Args[1]
	var tags []string
	for _, a := range g.Args[2:] {
		if strings.HasPrefix(a, "@") {
			tags = append(tags, a[1:])
		}
	}
	obj := pk.Types.Scope().Lookup(tname)
	if obj == nil {
		return "", fmt.Errorf("no type %s", tname)
	}
	named, ok := obj.Type().(*types.Named)
	if !ok {
		return "", fmt.Errorf("%s is not a named type", tname)
	}
	fn, ptr := p.methodOf(named, "MarshalYAML")
	if fn == nil || ptr {
		return "", fmt.Errorf("%s has no value-receiver MarshalYAML", tname)
	}
	recv := fn.Params[0].Name()
	var sb strings.Builder
	w := func(f string, a ...any) { fmt.Fprintf(&sb, "//@ "+f+"\n", a...) }
	w("func (%s).MarshalYAML", tname)
	// (an empty wrapper - no reference, no value - is what `"key": null` unmarshals to: it is
	// serialised as null again, not dereferenced)
	w("  modifies nothing")
	w("  ensures [bare-reference] %s.Ref != \"\" ==> result.1 == nil && typeof(result.0) == type *Ref && result.0.(*Ref) != nil && result.0.(*Ref).Ref == %s.Ref", recv, recv)
	w("  ensures [value-marshalled] %s.Ref == \"\" && %s.Value != nil ==> result.1 == nil && result.0 != nil && typeof(result.0) != type *Ref", recv, recv)
	w("  ensures [empty-wrapper-is-null] %s.Ref == \"\" && %s.Value == nil ==> result.1 == nil && result.0 == nil", recv, recv)
	w("  option safety-tags C20")
	w("  tag %s", strings.Join(tags, " "))
	return sb.String(), nil
}

// genFieldCopy: `generate fieldcopy <FuncKey> @TAG label=<l> src=<expr>:<pkg.Type> dst=<expr>:<pkg.Type>
// when=<expr> [rename=A:B,...] [except=F,...]` - a conversion between two struct types keeps every
// field the two types have in common (same name after renaming, identical type): one post-condition
// per such field, added to the hand-written contract of the function. The field list is read from
// the two declarations on every run.
func (p *Prog) genFieldCopy(g *GenerateDecl) (string, error) {
	key := g.Args[1]
	// method keys contain a space-free receiver, e.g. (*T).M
	var tags []string
	opt := map[string]string{}
	for _, a := range g.Args[2:] {
		if strings.HasPrefix(a, "@") {
			tags = append(tags, a)
			continue
		}
		if k := strings.Index(a, "="); k > 0 {
			opt[a[:k]] = a[k+1:]
		}
	}
	split := func(v string) (string, *types.Struct, error) {
		k := strings.LastIndex(v, ":")
		if k < 0 {
			return "", nil, fmt.Errorf("expected expr:pkg.Type in %q", v)
		}
		tn := v[k+1:]
		d := strings.Index(tn, ".")
		if d < 0 {
			return "", nil, fmt.Errorf("expected a qualified type in %q", v)
		}
		pk := p.byName[tn[:d]]
		if pk == nil {
			return "", nil, fmt.Errorf("package %s not loaded", tn[:d])
		}
		obj := pk.Types.Scope().Lookup(tn[d+1:])
		if obj == nil {
			return "", nil, fmt.Errorf("no type %s", tn)
		}
		st, ok := obj.Type().Underlying().(*types.Struct)
		if !ok {
			return "", nil, fmt.Errorf("%s is not a struct", tn)
		}
		return v[:k], st, nil
	}
	srcE, srcT, err := split(opt["src"])
	if err != nil {
		return "", err
	}
	dstE, dstT, err := split(opt["dst"])
	if err != nil {
		return "", err
	}
	rename := map[string]string{}
	for _, r := range strings.Split(opt["rename"], ",") {
		if k := strings.Index(r, ":"); k > 0 {
			rename[r[:k]] = r[k+1:]
		}
	}
	except := map[string]bool{}
	for _, f := range strings.Split(opt["except"], ",") {
		except[f] = true
	}
	when := opt["when"]
	label := opt["label"]
	var sb strings.Builder
	w := func(f string, a ...any) { fmt.Fprintf(&sb, "//@ "+f+"\n", a...) }
	w("extend func %s", key)
	n := 0
	var skipped []string
	for i := 0; i < srcT.NumFields(); i++ {
		sf := srcT.Field(i)
		dn := sf.Name()
		if r, ok := rename[dn]; ok {
			dn = r
		}
		if except[sf.Name()] || !sf.Exported() {
			continue
		}
		var df *types.Var
		for j := 0; j < dstT.NumFields(); j++ {
			if dstT.Field(j).Name() == dn {
				df = dstT.Field(j)
			}
		}
		if df == nil {
			continue
		}
		if !types.Identical(sf.Type(), df.Type()) {
			skipped = append(skipped, sf.Name())
			continue
		}
		w("  ensures %s [%s-keeps-%s] %s ==> %s.%s == old(%s.%s)", strings.Join(tags, " "), label, sf.Name(), when, dstE, dn, srcE, sf.Name())
		n++
	}
	if n == 0 {
		return "", fmt.Errorf("no common fields")
	}
	sort.Strings(skipped)
	p.genNotes = append(p.genNotes, fmt.Sprintf("generate fieldcopy %s [%s]: %d common fields under contract; same-named fields of different type not generated: %s; excluded by the directive: %s", key, label, n, strings.Join(skipped, ", "), opt["except"]))
	return sb.String(), nil
}
