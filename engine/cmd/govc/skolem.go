package main

import (
	"fmt"
	"strings"
)

// Pre-instantiation at the goal's skolem constants.
//
// An obligation is `assumptions ∧ ¬G`. Where G has a universal quantifier in positive position
// (`len(me)==0 ==> forall j :: P(j)`), ¬G introduces a witness: replacing the bound variable by a
// fresh constant sk gives a goal G' with G' ⊨ G (for a fresh sk). Every assumption with a
// universal quantifier in positive position over the same sort is then weakened to its instances at
// the skolem constants, and the quantifier-free result is tried. Dropping or weakening assumptions
// and strengthening the goal can only make the proof harder, so `unsat` is a valid discharge. This
// turns the typical "the invariant extends by one iteration" proofs into quantifier-free queries
// whose outcome does not depend on the solver's instantiation heuristics (or on its random seed).

type sx struct {
	atom string
	kids []*sx // nil for atoms
	list bool
}

func parseSx(s string) (*sx, bool) {
	pos := 0
	var parse func() (*sx, bool)
	skip := func() {
		for pos < len(s) && (s[pos] == ' ' || s[pos] == '\n' || s[pos] == '\t' || s[pos] == '\r') {
			pos++
		}
	}
	parse = func() (*sx, bool) {
		skip()
		if pos >= len(s) {
			return nil, false
		}
		if s[pos] == '(' {
			pos++
			n := &sx{list: true}
			for {
				skip()
				if pos >= len(s) {
					return nil, false
				}
				if s[pos] == ')' {
					pos++
					return n, true
				}
				k, ok := parse()
				if !ok {
					return nil, false
				}
				n.kids = append(n.kids, k)
			}
		}
		if s[pos] == ')' {
			return nil, false
		}
		start := pos
		if s[pos] == '"' {
			pos++
			for pos < len(s) {
				if s[pos] == '"' {
					if pos+1 < len(s) && s[pos+1] == '"' {
						pos += 2
						continue
					}
					break
				}
				pos++
			}
			if pos >= len(s) {
				return nil, false
			}
			pos++
			return &sx{atom: s[start:pos]}, true
		}
		if s[pos] == '|' {
			pos++
			for pos < len(s) && s[pos] != '|' {
				pos++
			}
			if pos >= len(s) {
				return nil, false
			}
			pos++
			return &sx{atom: s[start:pos]}, true
		}
		for pos < len(s) && s[pos] != ' ' && s[pos] != '(' && s[pos] != ')' && s[pos] != '\n' && s[pos] != '\t' && s[pos] != '\r' {
			pos++
		}
		return &sx{atom: s[start:pos]}, true
	}
	n, ok := parse()
	if !ok {
		return nil, false
	}
	skip()
	if pos != len(s) {
		return nil, false
	}
	return n, true
}

func (n *sx) write(sb *strings.Builder) {
	if !n.list {
		sb.WriteString(n.atom)
		return
	}
	sb.WriteByte('(')
	for i, k := range n.kids {
		if i > 0 {
			sb.WriteByte(' ')
		}
		k.write(sb)
	}
	sb.WriteByte(')')
}

func (n *sx) String() string {
	var sb strings.Builder
	n.write(&sb)
	return sb.String()
}

func (n *sx) head() string {
	if n.list && len(n.kids) > 0 && !n.kids[0].list {
		return n.kids[0].atom
	}
	return ""
}

func atomSx(a string) *sx { return &sx{atom: a} }

func listSx(kids ...*sx) *sx { return &sx{list: true, kids: kids} }

// subst replaces free occurrences of the atoms in m (bound-variable names are unique in our
// encoding, so no capture can occur; a binder that re-binds a name stops the substitution for it).
func (n *sx) subst(m map[string]string) *sx {
	if !n.list {
		if r, ok := m[n.atom]; ok {
			return atomSx(r)
		}
		return n
	}
	h := n.head()
	if (h == "forall" || h == "exists") && len(n.kids) == 3 && n.kids[1].list {
		inner := m
		for _, b := range n.kids[1].kids {
			if b.list && len(b.kids) == 2 {
				if _, ok := inner[b.kids[0].atom]; ok {
					c := map[string]string{}
					for k, v := range inner {
						c[k] = v
					}
					delete(c, b.kids[0].atom)
					inner = c
				}
			}
		}
		return listSx(n.kids[0], n.kids[1], n.kids[2].subst(inner))
	}
	out := &sx{list: true, kids: make([]*sx, len(n.kids))}
	for i, k := range n.kids {
		out.kids[i] = k.subst(m)
	}
	return out
}

func (n *sx) hasQuant() bool {
	if !n.list {
		return false
	}
	h := n.head()
	if h == "forall" || h == "exists" {
		return true
	}
	for _, k := range n.kids {
		if k.hasQuant() {
			return true
		}
	}
	return false
}

// stripPattern: (! body :pattern ...) -> body
func stripPattern(n *sx) *sx {
	for n.list && n.head() == "!" && len(n.kids) >= 2 {
		n = n.kids[1]
	}
	return n
}

type skolem struct{ name, sort string }

type skolemizer struct {
	enc   *Enc
	sk    []skolem
	decls []string
	n     int
	tag   string
}

// skolemizeGoal strengthens goal g (proved as ¬g unsatisfiable): positive universal quantifiers
// are replaced by their body at fresh constants.
func (z *skolemizer) goal(n *sx, pos bool) *sx {
	if !n.list {
		return n
	}
	switch h := n.head(); h {
	case "not":
		if len(n.kids) == 2 {
			return listSx(n.kids[0], z.goal(n.kids[1], !pos))
		}
	case "=>":
		out := &sx{list: true, kids: make([]*sx, len(n.kids))}
		out.kids[0] = n.kids[0]
		for i := 1; i < len(n.kids); i++ {
			if i == len(n.kids)-1 {
				out.kids[i] = z.goal(n.kids[i], pos)
			} else {
				out.kids[i] = z.goal(n.kids[i], !pos)
			}
		}
		return out
	case "and", "or":
		out := &sx{list: true, kids: make([]*sx, len(n.kids))}
		out.kids[0] = n.kids[0]
		for i := 1; i < len(n.kids); i++ {
			out.kids[i] = z.goal(n.kids[i], pos)
		}
		return out
	case "ite":
		if len(n.kids) == 4 {
			return listSx(n.kids[0], n.kids[1], z.goal(n.kids[2], pos), z.goal(n.kids[3], pos))
		}
	case "!":
		return z.goal(stripPattern(n), pos)
	case "forall":
		if pos && len(n.kids) == 3 && n.kids[1].list {
			m := map[string]string{}
			for _, b := range n.kids[1].kids {
				if !b.list || len(b.kids) != 2 {
					return n
				}
				name := fmt.Sprintf("sk$%s!%d", z.tag, z.n)
				z.n++
				sort := b.kids[1].String()
				z.sk = append(z.sk, skolem{name, sort})
				z.decls = append(z.decls, "(declare-const "+name+" "+sort+")")
				m[b.kids[0].atom] = name
			}
			return z.goal(stripPattern(n.kids[2]).subst(m), pos)
		}
	}
	return n
}

// weaken returns a consequence of assumption n that has no universal quantifier in positive
// position: each such quantifier becomes the conjunction of its instances at the skolem constants
// of its sorts (true when there is none). ok=false: the term keeps a quantifier elsewhere.
func (z *skolemizer) weaken(n *sx, pos bool) (*sx, bool) {
	if !n.list {
		return n, true
	}
	switch h := n.head(); h {
	case "not":
		if len(n.kids) == 2 {
			k, ok := z.weaken(n.kids[1], !pos)
			return listSx(n.kids[0], k), ok
		}
	case "=>", "and", "or":
		out := &sx{list: true, kids: make([]*sx, len(n.kids))}
		out.kids[0] = n.kids[0]
		for i := 1; i < len(n.kids); i++ {
			p := pos
			if h == "=>" && i < len(n.kids)-1 {
				p = !pos
			}
			k, ok := z.weaken(n.kids[i], p)
			if !ok {
				return nil, false
			}
			out.kids[i] = k
		}
		return out, true
	case "ite":
		if len(n.kids) == 4 && !n.kids[1].hasQuant() {
			a, ok1 := z.weaken(n.kids[2], pos)
			b, ok2 := z.weaken(n.kids[3], pos)
			if ok1 && ok2 {
				return listSx(n.kids[0], n.kids[1], a, b), true
			}
			return nil, false
		}
	case "!":
		return z.weaken(stripPattern(n), pos)
	case "forall":
		if pos && len(n.kids) == 3 && n.kids[1].list {
			var names, sorts []string
			for _, b := range n.kids[1].kids {
				if !b.list || len(b.kids) != 2 {
					return nil, false
				}
				names = append(names, b.kids[0].atom)
				sorts = append(sorts, b.kids[1].String())
			}
			// candidate tuples
			tuples := []map[string]string{{}}
			for i := range names {
				var next []map[string]string
				for _, t := range tuples {
					for _, s := range z.sk {
						if s.sort != sorts[i] {
							continue
						}
						c := map[string]string{}
						for k, v := range t {
							c[k] = v
						}
						c[names[i]] = s.name
						next = append(next, c)
					}
				}
				tuples = next
				if len(tuples) > 9 {
					tuples = tuples[:9]
				}
			}
			body := stripPattern(n.kids[2])
			conj := []*sx{atomSx("and"), atomSx("true")}
			for _, t := range tuples {
				k, ok := z.weaken(body.subst(t), pos)
				if !ok {
					return nil, false
				}
				conj = append(conj, k)
			}
			return listSx(conj...), true
		}
		return nil, false
	case "exists":
		if !pos && len(n.kids) == 3 && n.kids[1].list {
			// ¬∃x.P = ∀x.¬P : the same weakening, under the negation
			fa := listSx(atomSx("forall"), n.kids[1], listSx(atomSx("not"), n.kids[2]))
			k, ok := z.weaken(fa, true)
			if !ok {
				return nil, false
			}
			return listSx(atomSx("not"), k), true
		}
		return nil, false
	}
	if n.hasQuant() {
		return nil, false
	}
	return n, true
}

// smtSkolemized: the obligation with the goal skolemised and every assumption either kept (when
// quantifier-free), weakened to its instances at the skolem constants, or dropped. "" when the goal
// has no universal quantifier in positive position.
func (o *Obligation) smtSkolemized() string {
	if !strings.Contains(o.Goal, "(forall ") {
		return ""
	}
	g, ok := parseSx(o.Goal)
	if !ok {
		return ""
	}
	z := &skolemizer{enc: o.vc.enc, tag: "g"}
	g2 := z.goal(g, true)
	if len(z.sk) == 0 {
		return ""
	}
	var sb strings.Builder
	sb.WriteString("(set-logic ALL)\n")
	var body strings.Builder
	handle := func(l string) {
		if !strings.HasPrefix(l, "(assert") {
			sb.WriteString(l)
			sb.WriteByte('\n')
			return
		}
		if !(strings.Contains(l, "(forall ") || strings.Contains(l, "(exists ")) {
			body.WriteString(l)
			body.WriteByte('\n')
			return
		}
		a, ok := parseSx(l)
		if !ok || len(a.kids) != 2 {
			return
		}
		w, ok := z.weaken(a.kids[1], true)
		if !ok {
			return
		}
		body.WriteString("(assert " + w.String() + ")\n")
	}
	for _, l := range o.vc.enc.header {
		handle(l)
	}
	for _, l := range o.vc.stream[:o.Prefix] {
		handle(l)
	}
	for _, d := range z.decls {
		sb.WriteString(d + "\n")
	}
	sb.WriteString(body.String())
	sb.WriteString("(assert (not " + g2.String() + "))\n(check-sat)\n")
	return sb.String()
}
