package main

import (
	"fmt"
	"strings"
)

// Pre-instantiation at the goal's skolem constants.
//
// An obligation is `assumptions ∧ ¬G`. Where G has a universal quantifier in positive position
// (`len(me)==0 ==> forall j :: P(j)`), ¬G introduces a witness: replacing the bound variable by a
// fresh constant sk gives a goal G' with G' ⊨ G (for a fresh sk). Every assumption with a
// universal quantifier in positive position over the same sort is then weakened to its instances at
// the skolem constants, and the quantifier-free result is tried. Dropping or weakening assumptions
// and strengthening the goal can only make the proof harder, so `unsat` is a valid discharge. This
// turns the typical "the invariant extends by one iteration" proofs into quantifier-free queries
// whose outcome does not depend on the solver's instantiation heuristics (or on its random seed).

type sx struct {
	atom string
	kids []*sx // nil for atoms
	list bool
}

func parseSx(s string) (*sx, bool) {
	pos := 0
	var parse func() (*sx, bool)
	skip := func() {
		for pos < len(s) && (s[pos] == ' ' || s[pos] == '\n' || s[pos] == '\t' || s[pos] == '\r') {
			pos++
		}
	}
	parse = func() (*sx, bool) {
		skip()
		if pos >= len(s) {
			return nil, false
		}
		if s[pos] == '(' {
			pos++
			n := &sx{list: true}
			for {
				skip()
				if pos >= len(s) {
					return nil, false
				}
				if s[pos] == ')' {
					pos++
					return n, true
				}
				k, ok := parse()
				if !ok {
					return nil, false
				}
				n.kids = append(n.kids, k)
			}
		}
		if s[pos] == ')' {
			return nil, false
		}
		start := pos
		if s[pos] == '"' {
			pos++
			for pos < len(s) {
				if s[pos] == '"' {
					if pos+1 < len(s) && s[pos+1] == '"' {
						pos += 2
						continue
					}
					break
				}
				pos++
			}
			if pos >= len(s) {
				return nil, false
			}
			pos++
			return &sx{atom: s[start:pos]}, true
		}
		if s[pos] == '|' {
			pos++
			for pos < len(s) && s[pos] != '|' {
				pos++
			}
			if pos >= len(s) {
				return nil, false
			}
			pos++
			return &sx{atom: s[start:pos]}, true
		}
		for pos < len(s) && s[pos] != ' ' && s[pos] != '(' && s[pos] != ')' && s[pos] != '\n' && s[pos] != '\t' && s[pos] != '\r' {
			pos++
		}
		return &sx{atom: s[start:pos]}, true
	}
	n, ok := parse()
	if !ok {
		return nil, false
	}
	skip()
	if pos != len(s) {
		return nil, false
	}
	return n, true
}

func (n *sx) write(sb *strings.Builder) {
	if !n.list {
		sb.WriteString(n.atom)
		return
	}
	sb.WriteByte('(')
	for i, k := range n.kids {
		if i > 0 {
			sb.WriteByte(' ')
		}
		k.write(sb)
	}
	sb.WriteByte(')')
}

func (n *sx) String() string {
	var sb strings.Builder
	n.write(&sb)
	return sb.String()
}

func (n *sx) head() string {
	if n.list && len(n.kids) > 0 && !n.kids[0].list {
		return n.kids[0].atom
	}
	return ""
}

func atomSx(a string) *sx { return &sx{atom: a} }

func listSx(kids ...*sx) *sx { return &sx{list: true, kids: kids} }

// subst replaces free occurrences of the atoms in m (bound-variable names are unique in our
// encoding, so no capture can occur; a binder that re-binds a name stops the substitution for it).
func (n *sx) subst(m map[string]string) *sx {
	if !n.list {
		if r, ok := m[n.atom]; ok {
			return atomSx(r)
		}
		return n
	}
	h := n.head()
	if (h == "forall" || h == "exists") && len(n.kids) == 3 && n.kids[1].list {
		inner := m
		for _, b := range n.kids[1].kids {
			if b.list && len(b.kids) == 2 {
				if _, ok := inner[b.kids[0].atom]; ok {
					c := map[string]string{}
					for k, v := range inner {
						c[k] = v
					}
					delete(c, b.kids[0].atom)
					inner = c
				}
			}
		}
		return listSx(n.kids[0], n.kids[1], n.kids[2].subst(inner))
	}
	out := &sx{list: true, kids: make([]*sx, len(n.kids))}
	for i, k := range n.kids {
		out.kids[i] = k.subst(m)
	}
	return out
}

func (n *sx) hasQuant() bool {
	if !n.list {
		return false
	}
	h := n.head()
	if h == "forall" || h == "exists" {
		return true
	}
	for _, k := range n.kids {
		if k.hasQuant() {
			return true
		}
	}
	return false
}

// stripPattern: (! body :pattern ...) -> body
func stripPattern(n *sx) *sx {
	for n.list && n.head() == "!" && len(n.kids) >= 2 {
		n = n.kids[1]
	}
	return n
}

type skolem struct{ name, sort string }

// skolemizer eliminates the quantifiers of a set of assertions (the assumptions and the negated
// goal) in rounds: a quantifier in existential position (a universal under an odd number of
// negations, an existential under an even number) that is not below a remaining universal is
// replaced by its body at a fresh constant, named after its position so that the name is the same
// in every round; a quantifier in universal position is replaced by the conjunction of its
// instances at the constants introduced so far (true when there is none). Each step yields a
// consequence of the original assertion (up to the choice of the fresh constants), so an
// unsatisfiable result proves the original query unsatisfiable.
type skolemizer struct {
	sk      []skolem          // constants available for instantiation in this round
	found   []skolem          // constants introduced (this round)
	byPath  map[string]string // position -> constant name
	pathOf  map[string]string
	decl    map[string]string // constant name -> sort
	order   []string
	n       int
	budget  int // remaining instance count
}

func (z *skolemizer) constFor(path, sort string) string {
	if c, ok := z.byPath[path]; ok {
		return c
	}
	c := fmt.Sprintf("sk$%d", z.n)
	z.n++
	z.byPath[path] = c
	z.pathOf[c] = path
	z.decl[c] = sort
	z.order = append(z.order, c)
	return c
}

func binders(n *sx) (names, sorts []string, ok bool) {
	if len(n.kids) != 3 || !n.kids[1].list {
		return nil, nil, false
	}
	for _, b := range n.kids[1].kids {
		if !b.list || len(b.kids) != 2 || b.kids[0].list {
			return nil, nil, false
		}
		names = append(names, b.kids[0].atom)
		sorts = append(sorts, b.kids[1].String())
	}
	return names, sorts, true
}

// elim returns a consequence of n (n in positive position when pos, else a formula that n implies)
// without quantifiers; ok=false when a quantifier sits where polarity is not determined.
func (z *skolemizer) elim(n *sx, pos bool, path string) (*sx, bool) {
	if !n.list {
		return n, true
	}
	h := n.head()
	switch h {
	case "not":
		if len(n.kids) == 2 {
			k, ok := z.elim(n.kids[1], !pos, path+"n")
			if !ok {
				return nil, false
			}
			return listSx(n.kids[0], k), true
		}
	case "=>", "and", "or":
		out := &sx{list: true, kids: make([]*sx, len(n.kids))}
		out.kids[0] = n.kids[0]
		for i := 1; i < len(n.kids); i++ {
			p := pos
			if h == "=>" && i < len(n.kids)-1 {
				p = !pos
			}
			k, ok := z.elim(n.kids[i], p, fmt.Sprintf("%s.%d", path, i))
			if !ok {
				return nil, false
			}
			out.kids[i] = k
		}
		return out, true
	case "ite":
		if len(n.kids) == 4 && !n.kids[1].hasQuant() {
			a, ok1 := z.elim(n.kids[2], pos, path+".t")
			if !ok1 {
				return nil, false
			}
			b, ok2 := z.elim(n.kids[3], pos, path+".e")
			if !ok2 {
				return nil, false
			}
			return listSx(n.kids[0], n.kids[1], a, b), true
		}
	case "!":
		return z.elim(stripPattern(n), pos, path)
	case "forall", "exists":
		names, sorts, ok := binders(n)
		if !ok {
			return nil, false
		}
		body := stripPattern(n.kids[2])
		universal := (h == "forall") == pos
		if !universal {
			m := map[string]string{}
			for i := range names {
				c := z.constFor(fmt.Sprintf("%s/x%d", path, i), sorts[i])
				z.found = append(z.found, skolem{c, sorts[i]})
				m[names[i]] = c
			}
			return z.elim(body.subst(m), pos, path+"/b")
		}
		tuples := []map[string]string{{}}
		for i := range names {
			var next []map[string]string
			for _, t := range tuples {
				for _, s := range z.sk {
					if s.sort != sorts[i] {
						continue
					}
					c := map[string]string{}
					for k, v := range t {
						c[k] = v
					}
					c[names[i]] = s.name
					next = append(next, c)
				}
			}
			tuples = next
			if len(tuples) > 48 {
				tuples = tuples[:48]
			}
		}
		// a universal in positive position becomes the conjunction of its instances; in negative
		// position (an existential read negatively) the disjunction
		op, unit := "and", "true"
		if !pos {
			op, unit = "or", "false"
		}
		parts := []*sx{atomSx(op), atomSx(unit)}
		for _, t := range tuples {
			if z.budget <= 0 {
				break
			}
			z.budget--
			key := ""
			for _, nm := range names {
				key += "," + t[nm]
			}
			k, ok := z.elim(body.subst(t), pos, path+"["+key+"]")
			if !ok {
				return nil, false
			}
			parts = append(parts, k)
		}
		return listSx(parts...), true
	}
	if n.hasQuant() {
		return nil, false
	}
	return n, true
}

// smtSkolemized: the obligation with every quantifier eliminated as described above. "" when the
// goal has no quantifier.
func (o *Obligation) smtSkolemized(level int) string {
	if !strings.Contains(o.Goal, "(forall ") && !strings.Contains(o.Goal, "(exists ") && level == 0 {
		// a quantifier-free goal has no witness of its own; at level 1 the quantified assumptions are
		// still instantiated at the ground terms of the goal's cone (the current loop index, ...)
		return ""
	}
	g, ok := parseSx(o.Goal)
	if !ok {
		return ""
	}
	negGoal := listSx(atomSx("not"), g)
	type qline struct {
		idx int
		t   *sx
	}
	var decls, qf []string
	var qs []qline
	handle := func(l string, idx int) {
		if !strings.HasPrefix(l, "(assert") {
			decls = append(decls, l)
			return
		}
		if !(strings.Contains(l, "(forall ") || strings.Contains(l, "(exists ")) {
			qf = append(qf, l)
			return
		}
		a, ok := parseSx(l)
		if !ok || len(a.kids) != 2 {
			return
		}
		qs = append(qs, qline{idx, a.kids[1]})
	}
	for i, l := range o.vc.enc.header {
		handle(l, i)
	}
	for i, l := range o.vc.stream[:o.Prefix] {
		handle(l, 100000+i)
	}
	z := &skolemizer{byPath: map[string]string{}, pathOf: map[string]string{}, decl: map[string]string{}}
	// ground terms of the goal's definitional cone (loop counters, lengths, keys read in the
	// iteration) are instantiation candidates too: "the invariant extends by one iteration"
	// needs the quantified hypotheses at the current index, not only at the witness
	var ground []skolem
	maxRounds := 2
	if level > 0 {
		ground = o.coneGround(declSorts(decls))
		maxRounds = 3
	}
	z.sk = append(z.sk, ground...)
	var out []string
	var goalOut string
	for round := 0; round < maxRounds; round++ {
		z.found = nil
		z.budget = 4000
		out = out[:0]
		gk, ok := z.elim(negGoal, true, "G")
		if !ok {
			return ""
		}
		goalOut = gk.String()
		for _, q := range qs {
			k, ok := z.elim(q.t, true, fmt.Sprintf("L%d", q.idx))
			if !ok {
				continue
			}
			out = append(out, "(assert "+k.String()+")")
		}
		// constants for the next round: everything introduced so far, goal constants first
		// constants for the next round: those of the goal first, then the ground terms of the
		// goal's cone, then the witnesses the assumptions introduced
		seen := map[string]bool{}
		var next []skolem
		for _, c := range z.order {
			if strings.HasPrefix(z.pathOf[c], "G") {
				seen[c] = true
				next = append(next, skolem{c, z.decl[c]})
			}
		}
		for _, c := range ground {
			if !seen[c.name] {
				seen[c.name] = true
				next = append(next, c)
			}
		}
		for _, c := range z.order {
			if level == 0 {
				break
			}
			if !seen[c] && len(next) < 48 {
				seen[c] = true
				next = append(next, skolem{c, z.decl[c]})
			}
		}
		if len(next) == len(z.sk) {
			break
		}
		z.sk = next
	}
	if len(z.order) == 0 && len(ground) == 0 {
		return ""
	}
	var sb strings.Builder
	sb.WriteString("(set-logic ALL)\n")
	for _, d := range decls {
		sb.WriteString(d + "\n")
	}
	for _, c := range z.order {
		sb.WriteString("(declare-const " + c + " " + z.decl[c] + ")\n")
	}
	for _, l := range qf {
		sb.WriteString(l + "\n")
	}
	for _, l := range out {
		sb.WriteString(l + "\n")
	}
	sb.WriteString("(assert " + goalOut + ")\n(check-sat)\n")
	return sb.String()
}

func declSorts(decls []string) map[string]string {
	m := map[string]string{}
	for _, d := range decls {
		const p = "(declare-const "
		if strings.HasPrefix(d, p) {
			rest := d[len(p) : len(d)-1]
			if k := strings.IndexByte(rest, ' '); k > 0 {
				m[rest[:k]] = rest[k+1:]
			}
		}
	}
	return m
}

// coneGround: the Int- and String-sorted constants of the goal and of the definitions it rests on,
// nearest first, at most eight per sort.
func (o *Obligation) coneGround(sorts map[string]string) []skolem {
	vc := o.vc
	si := vc.sliceIdx()
	si.once.Do(func() { si.build(vc) })
	if o.Prefix > len(si.tok) {
		return nil
	}
	defLine := map[string][]int{}
	for i := 0; i < o.Prefix; i++ {
		if s := si.defSym[i]; s != "" {
			defLine[s] = append(defLine[s], i)
		}
	}
	var out []skolem
	count := map[string]int{}
	seen := map[string]bool{}
	queue := tokenize(o.Goal, vc.enc.declared)
	for len(queue) > 0 && len(out) < 16 {
		t := queue[0]
		queue = queue[1:]
		if seen[t] {
			continue
		}
		seen[t] = true
		if so := sorts[t]; (so == sInt || so == sString) && !isControlSym(t) && count[so] < 8 {
			count[so]++
			out = append(out, skolem{t, so})
		}
		for _, i := range defLine[t] {
			for _, u := range si.tok[i] {
				if !seen[u] {
					queue = append(queue, u)
				}
			}
		}
	}
	return out
}
