package main

// SMT-level encoding of Go types and values (DESIGN.md 2.3).

import (
	"fmt"
	"go/constant"
	"go/types"
	"math"
	"math/big"
	"sort"
	"strings"
)

const (
	sInt    = "Int"
	sBool   = "Bool"
	sString = "String"
	sF64    = "(_ FloatingPoint 11 53)"
	sF32    = "(_ FloatingPoint 8 24)"
	sSlice  = "Slice"
	sIface  = "Iface"
)

// TV is a typed SMT term.
type TV struct {
	S    string     // s-expression
	Sort string     // SMT sort
	Ty   types.Type // Go type when known (nil for spec-only sorts)
}

func sanitize(s string) string {
	var sb strings.Builder
	for _, r := range s {
		switch {
		case r >= 'a' && r <= 'z', r >= 'A' && r <= 'Z', r >= '0' && r <= '9', r == '_', r == '$', r == '.':
			sb.WriteRune(r)
		case r == '/':
			sb.WriteString("_")
		case r == '*':
			sb.WriteString("P.")
		case r == '[':
			sb.WriteString("L.")
		case r == ']':
			sb.WriteString(".R")
		case r == '(' || r == ')' || r == ' ' || r == ',':
			sb.WriteString("_")
		default:
			sb.WriteString(fmt.Sprintf("u%x", r))
		}
	}
	return sb.String()
}

// sortName is a short token for a sort, usable inside identifiers.
func sortTok(sort string) string {
	switch sort {
	case sInt:
		return "Int"
	case sBool:
		return "Bool"
	case sString:
		return "Str"
	case sF64:
		return "F64"
	case sF32:
		return "F32"
	}
	return sanitize(sort)
}

func typeShort(t types.Type) string {
	return sanitize(types.TypeString(t, func(p *types.Package) string { return p.Name() }))
}

// Enc is the per-VC encoder: it owns the SMT header (declarations) and knows how Go
// types map to sorts.
type Enc struct {
	prog            *Prog
	tagOf           map[string]int
	tagType         map[int]types.Type
	header          []string
	declared        map[string]bool
	structs         map[string]*types.Struct // struct sort name -> struct
	fresh           int
	usedAssumptions map[string]bool
	usedTrusted     map[string]bool
	usedSpecs       map[string]bool
}

func newEnc(p *Prog) *Enc {
	e := &Enc{prog: p, declared: map[string]bool{}, structs: map[string]*types.Struct{}, usedAssumptions: map[string]bool{}, usedTrusted: map[string]bool{}, usedSpecs: map[string]bool{}, tagOf: map[string]int{}, tagType: map[int]types.Type{}}
	e.header = append(e.header,
		"(declare-datatypes ((Slice 0)) (((mk-slice (sl-arr Int) (sl-len Int) (sl-cap Int)))))",
		"(declare-datatypes ((Iface 0)) (((mk-iface (if-tag Int) (if-data Int)))))",
	)
	return e
}

func (e *Enc) decl(name, line string) {
	if e.declared[name] {
		return
	}
	e.declared[name] = true
	e.header = append(e.header, line)
}

func (e *Enc) declConst(name, sort string) string {
	e.decl(name, fmt.Sprintf("(declare-const %s %s)", name, sort))
	return name
}

func (e *Enc) declFun(name string, args []string, ret string) {
	e.decl(name, fmt.Sprintf("(declare-fun %s (%s) %s)", name, strings.Join(args, " "), ret))
}

func (e *Enc) freshName(prefix string) string {
	e.fresh++
	return fmt.Sprintf("%s!%d", prefix, e.fresh)
}

func (e *Enc) freshConst(prefix, sort string) string {
	n := e.freshName(prefix)
	return e.declConst(n, sort)
}

// sortOf maps a Go type to its SMT sort.
func (e *Enc) sortOf(t types.Type) string {
	switch u := t.Underlying().(type) {
	case *types.Basic:
		info := u.Info()
		switch {
		case info&types.IsBoolean != 0:
			return sBool
		case info&types.IsInteger != 0:
			return sInt
		case info&types.IsFloat != 0:
			if u.Kind() == types.Float32 {
				return sF32
			}
			return sF64
		case info&types.IsString != 0:
			return sString
		case u.Kind() == types.UnsafePointer:
			return sInt
		case u.Kind() == types.UntypedNil:
			return sInt
		}
		panic(unsupported("basic type " + u.String()))
	case *types.Pointer, *types.Map, *types.Chan, *types.Signature:
		return sInt
	case *types.Slice:
		return sSlice
	case *types.Interface:
		return sIface
	case *types.Struct:
		return e.structSort(t, u)
	case *types.Array:
		// arrays as values are represented by a reference to their backing store
		return sInt
	case *types.Tuple:
		panic(unsupported("tuple as value"))
	case *types.TypeParam:
		panic(unsupported("type parameter " + t.String()))
	}
	panic(unsupported("type " + t.String()))
}

func (e *Enc) structSort(t types.Type, st *types.Struct) string {
	name := "S$" + typeShort(t)
	if _, ok := e.structs[name]; ok {
		return name
	}
	e.structs[name] = st
	var fs []string
	for i := 0; i < st.NumFields(); i++ {
		fs = append(fs, fmt.Sprintf("(%s$%d %s)", name, i, e.sortOf(st.Field(i).Type())))
	}
	if len(fs) == 0 {
		e.decl(name, fmt.Sprintf("(declare-datatypes ((%s 0)) (((mk$%s))))", name, name))
	} else {
		e.decl(name, fmt.Sprintf("(declare-datatypes ((%s 0)) (((mk$%s %s))))", name, name, strings.Join(fs, " ")))
	}
	return name
}

func (e *Enc) zero(t types.Type) string {
	return e.zeroOfSort(e.sortOf(t), t)
}

func (e *Enc) zeroOfSort(sort string, t types.Type) string {
	switch sort {
	case sInt:
		return "0"
	case sBool:
		return "false"
	case sString:
		return "\"\""
	case sF64:
		return "(_ +zero 11 53)"
	case sF32:
		return "(_ +zero 8 24)"
	case sSlice:
		return "(mk-slice 0 0 0)"
	case sIface:
		return "(mk-iface 0 0)"
	}
	if st, ok := e.structs[sort]; ok {
		if st.NumFields() == 0 {
			return "mk$" + sort
		}
		var zs []string
		for i := 0; i < st.NumFields(); i++ {
			zs = append(zs, e.zero(st.Field(i).Type()))
		}
		return "(mk$" + sort + " " + strings.Join(zs, " ") + ")"
	}
	panic(unsupported("zero of sort " + sort))
}

func arraySort(k, v string) string { return "(Array " + k + " " + v + ")" }

func sel(a, i string) string     { return "(select " + a + " " + i + ")" }
func sto(a, i, v string) string  { return "(store " + a + " " + i + " " + v + ")" }
func eq(a, b string) string      { return "(= " + a + " " + b + ")" }
func not(a string) string        { return "(not " + a + ")" }
func implies(a, b string) string { return "(=> " + a + " " + b + ")" }
func ite(c, a, b string) string  { return "(ite " + c + " " + a + " " + b + ")" }
func and(xs ...string) string {
	var ys []string
	for _, x := range xs {
		if x == "true" || x == "" {
			continue
		}
		ys = append(ys, x)
	}
	switch len(ys) {
	case 0:
		return "true"
	case 1:
		return ys[0]
	}
	return "(and " + strings.Join(ys, " ") + ")"
}
func or(xs ...string) string {
	var ys []string
	for _, x := range xs {
		if x == "false" || x == "" {
			continue
		}
		ys = append(ys, x)
	}
	switch len(ys) {
	case 0:
		return "false"
	case 1:
		return ys[0]
	}
	return "(or " + strings.Join(ys, " ") + ")"
}

func intLit(v *big.Int) string {
	if v.Sign() < 0 {
		return "(- " + new(big.Int).Neg(v).String() + ")"
	}
	return v.String()
}

func intLitI(v int64) string { return intLit(big.NewInt(v)) }

// strLit renders a Go string (bytes) as an SMT-LIB string literal whose characters are
// the bytes.
func strLit(s string) string {
	var sb strings.Builder
	sb.WriteByte('"')
	for i := 0; i < len(s); i++ {
		c := s[i]
		switch {
		case c == '"':
			sb.WriteString("\"\"")
		case c == '\\':
			sb.WriteString("\\u{5c}")
		case c >= 0x20 && c < 0x7f:
			sb.WriteByte(c)
		default:
			sb.WriteString(fmt.Sprintf("\\u{%x}", c))
		}
	}
	sb.WriteByte('"')
	return sb.String()
}

func f64Lit(f float64) string {
	bits := math.Float64bits(f)
	sign := bits >> 63
	exp := (bits >> 52) & 0x7ff
	mant := bits & ((1 << 52) - 1)
	return fmt.Sprintf("(fp #b%b #b%011b #x%013x)", sign, exp, mant)
}

func f32Lit(f float32) string {
	bits := math.Float32bits(f)
	sign := bits >> 31
	exp := (bits >> 23) & 0xff
	mant := bits & ((1 << 23) - 1)
	return fmt.Sprintf("(fp #b%b #b%08b #b%023b)", sign, exp, mant)
}

// intRange returns the inclusive range of an integer basic type.
func intRange(b *types.Basic) (lo, hi *big.Int) {
	one := big.NewInt(1)
	bitsOf := func(k types.BasicKind) (int, bool) {
		switch k {
		case types.Int8:
			return 8, true
		case types.Int16:
			return 16, true
		case types.Int32:
			return 32, true
		case types.Int64, types.Int:
			return 64, true
		case types.Uint8:
			return 8, false
		case types.Uint16:
			return 16, false
		case types.Uint32:
			return 32, false
		case types.Uint64, types.Uint, types.Uintptr:
			return 64, false
		case types.UntypedInt, types.UntypedRune:
			return 64, true
		}
		return 64, true
	}
	n, signed := bitsOf(b.Kind())
	if signed {
		hi = new(big.Int).Sub(new(big.Int).Lsh(one, uint(n-1)), one)
		lo = new(big.Int).Neg(new(big.Int).Lsh(one, uint(n-1)))
	} else {
		lo = big.NewInt(0)
		hi = new(big.Int).Sub(new(big.Int).Lsh(one, uint(n)), one)
	}
	return
}

func isIntegerType(t types.Type) (*types.Basic, bool) {
	b, ok := t.Underlying().(*types.Basic)
	if !ok {
		return nil, false
	}
	return b, b.Info()&types.IsInteger != 0
}

// wrapInt renders t wrapped into the range of integer type b (two's complement).
func wrapInt(t string, b *types.Basic) string {
	lo, hi := intRange(b)
	mod := new(big.Int).Add(new(big.Int).Sub(hi, lo), big.NewInt(1))
	if lo.Sign() == 0 {
		return "(mod " + t + " " + mod.String() + ")"
	}
	// signed: ((t - lo) mod M) + lo
	return "(+ (mod (- " + t + " " + intLit(lo) + ") " + mod.String() + ") " + intLit(lo) + ")"
}

// constTerm renders a Go constant of type t.
func (e *Enc) constTerm(v constant.Value, t types.Type) string {
	sort := e.sortOf(t)
	if v == nil {
		return e.zeroOfSort(sort, t)
	}
	switch sort {
	case sBool:
		if constant.BoolVal(v) {
			return "true"
		}
		return "false"
	case sInt:
		if v.Kind() == constant.Int {
			if i, ok := constant.Int64Val(v); ok {
				return intLitI(i)
			}
			bi, _ := new(big.Int).SetString(v.ExactString(), 10)
			return intLit(bi)
		}
		if v.Kind() == constant.Float {
			f, _ := constant.Float64Val(v)
			return intLitI(int64(f))
		}
	case sString:
		return strLit(constant.StringVal(v))
	case sF64:
		f, _ := constant.Float64Val(constant.ToFloat(v))
		return f64Lit(f)
	case sF32:
		f, _ := constant.Float32Val(constant.ToFloat(v))
		return f32Lit(f)
	}
	panic(unsupported(fmt.Sprintf("constant %v of type %s", v, t)))
}

type unsupportedErr string

func unsupported(s string) unsupportedErr { return unsupportedErr(s) }
func (u unsupportedErr) Error() string    { return "outside subset: " + string(u) }

// ---------------------------------------------------------------------------------
// type tags for interfaces

// Tags are numbered per function (per Enc), in the order the function's VC meets the types, so a
// function's queries do not depend on which other functions were encoded before it.
func (e *Enc) typeTag(t types.Type) int {
	key := types.TypeString(t, nil)
	if id, ok := e.tagOf[key]; ok {
		return id
	}
	id := len(e.tagOf) + 1
	e.tagOf[key] = id
	e.tagType[id] = t
	return id
}

// tagIDs lists the tags allocated so far in increasing order (deterministic query text).
func (e *Enc) tagIDs() []int {
	ids := make([]int, 0, len(e.tagType))
	for id := range e.tagType {
		ids = append(ids, id)
	}
	sort.Ints(ids)
	return ids
}

// boxing: values of sort σ carried by an interface are represented by an Int through an
// injective (box/unbox) pair; pointer-like values are carried as themselves.
func (e *Enc) box(v string, t types.Type) string {
	sort := e.sortOf(t)
	if sort == sInt {
		return v
	}
	tok := sortTok(sort)
	if !e.declared["box$"+tok] {
		e.declFun("box$"+tok, []string{sort}, sInt)
		// boxed scalars are not references: they sit at or below 0
		e.header = append(e.header, "(assert (forall ((v "+sort+")) (! (<= (box$"+tok+" v) 0) :pattern ((box$"+tok+" v)))))")
	}
	e.declFun("unbox$"+tok, []string{sInt}, sort)
	return "(box$" + tok + " " + v + ")"
}

func (e *Enc) unbox(d string, t types.Type) string {
	sort := e.sortOf(t)
	if sort == sInt {
		return d
	}
	tok := sortTok(sort)
	e.declFun("box$"+tok, []string{sort}, sInt)
	e.declFun("unbox$"+tok, []string{sInt}, sort)
	return "(unbox$" + tok + " " + d + ")"
}

// boxFacts returns the injectivity instance for a boxed value.
func (e *Enc) boxFact(v string, t types.Type) string {
	sort := e.sortOf(t)
	if sort == sInt {
		return "true"
	}
	tok := sortTok(sort)
	return eq("(unbox$"+tok+" (box$"+tok+" "+v+"))", v)
}

func sortedKeys[V any](m map[string]V) []string {
	var ks []string
	for k := range m {
		ks = append(ks, k)
	}
	sort.Strings(ks)
	return ks
}
