package main

import (
	"runtime"
	"syscall"
	"go/types"
	"bytes"
	"context"
	"fmt"
	"os"
	"os/exec"
	"path/filepath"
	"strings"
	"sync"
	"time"
)

type SolveResult struct {
	wantSoft bool
	CandidateQF bool // no definite answer on the full query, but the quantifier-free part has a model (a candidate counterexample, to be confirmed by replay)
	Status   string // unsat, sat, unknown, timeout, error
	Solver   string
	Ms       int64
	Model    string
	Output   string
	SMTBytes int
	Tried    []string
}

type solverSpec struct {
	name string
	cmd  func(file string, timeoutMs int) []string
}

var solvers = []solverSpec{
	{"z3-5.1.0", func(f string, ms int) []string {
		return []string{"z3-new", fmt.Sprintf("-t:%d", ms), f}
	}},
	{"cvc5-1.0", func(f string, ms int) []string {
		return []string{"cvc5", "--strings-exp", "--produce-models", fmt.Sprintf("--tlimit=%d", ms), "--lang=smt2", f}
	}},
	{"z3-4.8.12", func(f string, ms int) []string {
		return []string{"z3", fmt.Sprintf("-t:%d", ms), f}
	}},
}

// smtQF: the query with every quantified assumption dropped. Fewer assumptions only make the
// goal harder to prove, so `unsat` here is a valid discharge; it keeps quantifier
// instantiation from drowning goals that do not need it.
func (o *Obligation) smtQF() string {
	var sb strings.Builder
	sb.WriteString("(set-logic ALL)\n")
	keep := func(l string) bool {
		return !strings.HasPrefix(l, "(assert") || !(strings.Contains(l, "(forall ") || strings.Contains(l, "(exists "))
	}
	for _, l := range o.vc.enc.header {
		if keep(l) {
			sb.WriteString(l)
			sb.WriteByte('\n')
		}
	}
	for _, l := range o.vc.stream[:o.Prefix] {
		if keep(l) {
			sb.WriteString(l)
			sb.WriteByte('\n')
		}
	}
	sb.WriteString("(assert (not " + o.Goal + "))\n")
	for _, l := range o.softLines() {
		sb.WriteString(l + "\n")
	}
	sb.WriteString("(check-sat)\n")
	return sb.String()
}

// softLines: preferences for candidate counterexamples - unset optional fields of the objects
// the parameters point to - so that the candidate isolates the keyword at fault.
func (o *Obligation) softLines() []string {
	if o.Result == nil || !o.Result.wantSoft {
		return nil
	}
	vc := o.vc
	var out []string
	for _, prm := range vc.fn.Params {
		pt, ok := prm.Type().Underlying().(*types.Pointer)
		if !ok {
			continue
		}
		st, ok := pt.Elem().Underlying().(*types.Struct)
		if !ok {
			continue
		}
		pname := "p$" + sanitize(prm.Name())
		for i := 0; i < st.NumFields(); i++ {
			comp := "F$" + typeShort(pt.Elem()) + "$" + st.Field(i).Name()
			sortS, used := vc.compSort[comp]
			if !used {
				continue
			}
			_, vs := arrayParts(sortS)
			zero := ""
			switch vs {
			case sInt:
				zero = "0"
			case sBool:
				zero = "false"
			case sString:
				zero = "\"\""
			case sSlice:
				zero = "(mk-slice 0 0 0)"
			}
			if zero == "" {
				continue
			}
			name := comp + "!e0"
			if !vc.enc.declared[name] {
				continue
			}
			out = append(out, "(assert-soft (= (select "+name+" "+pname+") "+zero+"))")
		}
	}
	return out
}

func (o *Obligation) smt(withModel bool) string {
	var sb strings.Builder
	if o.Class == "frame-scan" || o.Class == "label" {
		return "; discharged by call-graph scan, no SMT query\n"
	}
	sb.WriteString("(set-option :produce-models true)\n(set-logic ALL)\n")
	for _, l := range o.vc.enc.header {
		sb.WriteString(l)
		sb.WriteByte('\n')
	}
	for _, l := range o.vc.stream[:o.Prefix] {
		sb.WriteString(l)
		sb.WriteByte('\n')
	}
	sb.WriteString("(assert (not " + o.Goal + "))\n(check-sat)\n")
	if withModel {
		sb.WriteString("(get-model)\n")
	}
	return sb.String()
}

// acquireSlot takes one of as many machine-wide slots as there are cores (advisory file locks in the
// temporary directory), so that checks running side by side queue their solver processes instead of
// starving each other's wall-clock limits. It gives up waiting when ctx is cancelled.
func acquireSlot(ctx context.Context) (release func()) {
	dir := filepath.Join(os.TempDir(), "govc-slots")
	if err := os.MkdirAll(dir, 0o777); err != nil {
		return func() {}
	}
	n := runtime.NumCPU()
	if n < 2 {
		n = 2
	}
	start := int(time.Now().UnixNano() % int64(n))
	for {
		for k := 0; k < n; k++ {
			f, err := os.OpenFile(filepath.Join(dir, fmt.Sprintf("slot-%d", (start+k)%n)), os.O_CREATE|os.O_RDWR, 0o666)
			if err != nil {
				return func() {}
			}
			if syscall.Flock(int(f.Fd()), syscall.LOCK_EX|syscall.LOCK_NB) == nil {
				return func() { syscall.Flock(int(f.Fd()), syscall.LOCK_UN); f.Close() }
			}
			f.Close()
		}
		select {
		case <-ctx.Done():
			return func() {}
		case <-time.After(15 * time.Millisecond):
		}
	}
}

func runSolver(ctx context.Context, sp solverSpec, file string, timeoutMs int) (status, out string, ms int64) {
	args := sp.cmd(file, timeoutMs)
	release := acquireSlot(ctx)
	defer release()
	if ctx.Err() != nil {
		return "timeout", "cancelled", 0
	}
	cctx, cancel := context.WithTimeout(ctx, time.Duration(timeoutMs+1500)*time.Millisecond)
	defer cancel()
	cmd := exec.CommandContext(cctx, args[0], args[1:]...)
	var buf bytes.Buffer
	cmd.Stdout = &buf
	cmd.Stderr = &buf
	t0 := time.Now()
	_ = cmd.Run()
	ms = time.Since(t0).Milliseconds()
	out = buf.String()
	first := strings.TrimSpace(out)
	if k := strings.Index(first, "\n"); k >= 0 {
		first = strings.TrimSpace(first[:k])
	}
	switch first {
	case "unsat", "sat", "unknown":
		status = first
	case "timeout":
		status = "timeout"
	default:
		if cctx.Err() != nil {
			status = "timeout"
		} else if strings.Contains(out, "interrupted") || strings.Contains(out, "timeout") {
			status = "timeout"
		} else {
			status = "error"
		}
	}
	return
}

// stageScale multiplies the wall-clock limits of the cheap first attempts; the retry pass for
// obligations left undecided (machine load) sets it to 4.
var stageScale = 1

// solve discharges one obligation: a fast first attempt with the newest z3, then a race of
// the other solvers.
func solve(o *Obligation, dir string, budgetMs int, portfolioAll bool) *SolveResult {
	text := o.smt(true)
	file := filepath.Join(dir, sanitize(o.Name)+".smt2")
	if len(file) > 200 {
		file = filepath.Join(dir, fmt.Sprintf("o%x.smt2", hashStr(o.Name)))
	}
	if err := os.WriteFile(file, []byte(text), 0o644); err != nil {
		return &SolveResult{Status: "error", Output: err.Error()}
	}
	defer os.Remove(file)
	res := &SolveResult{SMTBytes: len(text)}
	ctx := context.Background()
	if o.Expect == "unsat" && !portfolioAll && o.Class != "smoke" && os.Getenv("GOVC_NOSLICE") == "" {
		// cheapest first: the goal's cone of influence, definitions only, then with the facts
		// that touch it (dropping assumptions is sound for a proof)
		type stage struct {
			facts bool
			depth int
			ms    int
			label string
		}
		prevText := ""
		for k, sg := range []stage{
			{false, 0, 600, "definitions only"},
			{true, 0, 1500, "definitions and the facts touching them"},
		} {
			if k == 1 && os.Getenv("GOVC_NOSKOLEM") == "" {
				prevSk := ""
				for level := 0; level < 2; level++ {
					sk := o.smtSkolemized(level)
					if sk == "" || sk == prevSk {
						continue
					}
					prevSk = sk
					label := "goal skolemised, quantified assumptions instantiated at the skolem constants"
					if level == 1 {
						label = "quantifiers eliminated in rounds: witnesses for existential positions, instances at the witnesses and at the ground terms of the goal's cone"
					}
					sf := file + ".sk.smt2"
					if err := os.WriteFile(sf, []byte(sk), 0o644); err != nil {
						break
					}
					stt, out, ms := runSolver(ctx, solvers[0], sf, 2500*stageScale)
					if kd := os.Getenv("GOVC_DUMPQ"); kd != "" && strings.HasSuffix(o.Name, kd) {
						os.WriteFile(filepath.Join("/tmp", fmt.Sprintf("dumpq-%d-%s-skolem%d.smt2", os.Getpid(), stt, level)), []byte(sk), 0o644)
					}
					os.Remove(sf)
					res.Tried = append(res.Tried, fmt.Sprintf("%s(%s):%s:%dms", solvers[0].name, label, stt, ms))
					if stt == "unsat" {
						res.Status, res.Solver, res.Ms, res.Output = stt, solvers[0].name+" ("+label+")", ms, out
						res.SMTBytes = len(sk)
						return res
					}
				}
			}
			st := o.smtSlicedDepth(sg.facts, sg.depth)
			if st == "" {
				break
			}
			if st == prevText {
				continue
			}
			prevText = st
			sf := fmt.Sprintf("%s.s%d.smt2", file, k)
			if err := os.WriteFile(sf, []byte(st), 0o644); err != nil {
				break
			}
			stt, out, ms := runSolver(ctx, solvers[0], sf, sg.ms*stageScale)
			if kd := os.Getenv("GOVC_DUMPQ"); kd != "" && strings.HasSuffix(o.Name, kd) {
				os.WriteFile(filepath.Join("/tmp", fmt.Sprintf("dumpq-%d-%s-%d.smt2", os.Getpid(), stt, k)), []byte(st), 0o644)
				os.WriteFile(filepath.Join("/tmp", fmt.Sprintf("dumpq-%d-full.smt2", os.Getpid())), []byte(text), 0o644)
			}
			if kd := os.Getenv("GOVC_KEEPSLICE"); kd != "" && stt == "unsat" && strings.Contains(o.Name, kd) {
				os.WriteFile(filepath.Join("/tmp", fmt.Sprintf("slice-%x-%d.smt2", hashStr(o.Name), k)), []byte(st), 0o644)
			}
			os.Remove(sf)
			res.Tried = append(res.Tried, fmt.Sprintf("%s(cone of influence, %s):%s:%dms", solvers[0].name, sg.label, stt, ms))
			if stt == "unsat" {
				res.Status, res.Solver, res.Ms, res.Output = stt, solvers[0].name+" (cone of influence of the goal, "+sg.label+")", ms, out
				res.SMTBytes = len(st)
				return res
			}
		}
	}
	goalQuantified := strings.Contains(o.Goal, "(forall ") || strings.Contains(o.Goal, "(exists ")
	if o.Expect == "unsat" && !portfolioAll && !goalQuantified && (strings.Contains(text, "(forall ") || strings.Contains(text, "(exists ")) {
		qf := o.smtQF()
		qfFile := file + ".qf.smt2"
		if err := os.WriteFile(qfFile, []byte(qf), 0o644); err == nil {
			st, out, ms := runSolver(ctx, solvers[0], qfFile, 1500*stageScale)
			os.Remove(qfFile)
			res.Tried = append(res.Tried, fmt.Sprintf("%s(quantifier-free prefix):%s:%dms", solvers[0].name, st, ms))
			if st == "unsat" {
				res.Status, res.Solver, res.Ms, res.Output = st, solvers[0].name+" (quantified assumptions dropped)", ms, out
				return res
			}
		}
	}
	firstMs := budgetMs
	if firstMs > 3000*stageScale {
		firstMs = 3000 * stageScale
	}
	if goalQuantified && budgetMs >= 6000*stageScale {
		// quantified goals (set inclusions over maps) need instantiation: give the first solver
		// room before three solvers compete for the cores
		firstMs = 6000 * stageScale
	}
	definitive := func(s string) bool { return s == "sat" || s == "unsat" }
	if o.Class == "smoke" && os.Getenv("GOVC_NOSLICE") == "" {
		// vacuity probes: a contradiction among few assumptions is found fastest on the cone of
		// influence of the reachability constant (unsat on a subset of the assumptions is unsat)
		if st := o.smtSliced(true); st != "" {
			sf := file + ".smoke.smt2"
			if err := os.WriteFile(sf, []byte(st), 0o644); err == nil {
				stt, out, ms := runSolver(ctx, solvers[0], sf, 1500)
				os.Remove(sf)
				res.Tried = append(res.Tried, fmt.Sprintf("%s(cone of influence):%s:%dms", solvers[0].name, stt, ms))
				if stt == "unsat" {
					res.Status, res.Solver, res.Ms, res.Output = stt, solvers[0].name, ms, out
					return res
				}
			}
		}
	}
	if o.Class == "smoke" {
		// vacuity probes get one short attempt: only a definite `unsat` matters
		st, out, ms := runSolver(ctx, solvers[0], file, 1200)
		res.Tried = append(res.Tried, fmt.Sprintf("%s:%s:%dms", solvers[0].name, st, ms))
		res.Status, res.Solver, res.Ms, res.Output = st, solvers[0].name, ms, out
		return res
	}
	if !portfolioAll {
		st, out, ms := runSolver(ctx, solvers[0], file, firstMs)
		res.Tried = append(res.Tried, fmt.Sprintf("%s:%s:%dms", solvers[0].name, st, ms))
		if definitive(st) {
			res.Status, res.Solver, res.Ms, res.Output = st, solvers[0].name, ms, out
			if st == "sat" {
				res.Model = out
			}
			return res
		}
		res.Status, res.Output = st, out
		if o.probe {
			return res
		}
	}
	// race
	type r struct {
		st, out, name string
		ms            int64
	}
	cctx, cancel := context.WithCancel(ctx)
	defer cancel()
	ch := make(chan r, len(solvers))
	var wg sync.WaitGroup
	for _, sp := range solvers {
		sp := sp
		wg.Add(1)
		go func() {
			defer wg.Done()
			st, out, ms := runSolver(cctx, sp, file, budgetMs)
			ch <- r{st, out, sp.name, ms}
		}()
	}
	go func() { wg.Wait(); close(ch) }()
	var answers []r
	for a := range ch {
		res.Tried = append(res.Tried, fmt.Sprintf("%s:%s:%dms", a.name, a.st, a.ms))
		answers = append(answers, a)
		if definitive(a.st) && !portfolioAll {
			res.Status, res.Solver, res.Ms, res.Output = a.st, a.name, a.ms, a.out
			if a.st == "sat" {
				res.Model = a.out
			}
			cancel()
			return res
		}
	}
	if portfolioAll {
		// all solvers ran: report disagreement as an error
		var def []r
		for _, a := range answers {
			if definitive(a.st) {
				def = append(def, a)
			}
		}
		if len(def) > 0 {
			res.Status, res.Solver, res.Ms, res.Output = def[0].st, def[0].name, def[0].ms, def[0].out
			for _, a := range def[1:] {
				if a.st != def[0].st {
					res.Status = "error"
					res.Output = "solver disagreement: " + strings.Join(res.Tried, " ")
				}
				if a.ms < res.Ms && a.st == def[0].st {
					res.Solver, res.Ms = a.name, a.ms
				}
			}
			if res.Status == "sat" {
				res.Model = res.Output
			}
			return res
		}
	}
	if o.Expect == "unsat" && !portfolioAll {
		// no definite answer: look for a candidate counterexample among the models of the
		// quantifier-free part of the assumptions (only a replay on the real code can confirm it)
		res.wantSoft = true
		o.Result = res
		qf := o.smtQF()
		qfFile := file + ".cand.smt2"
		if err := os.WriteFile(qfFile, []byte(qf), 0o644); err == nil {
			st, out, _ := runSolver(ctx, solvers[0], qfFile, 3000)
			os.Remove(qfFile)
			if st == "sat" {
				res.CandidateQF = true
				res.Model = out
			}
		}
	}
	if res.Status == "" || res.Status == "error" {
		res.Status = "unknown"
		for _, a := range answers {
			if a.st == "timeout" {
				res.Status = "timeout"
			}
		}
		for _, a := range answers {
			if a.st == "error" && res.Output == "" {
				res.Output = a.out
			}
		}
	}
	return res
}

func hashStr(s string) uint32 {
	var h uint32 = 2166136261
	for i := 0; i < len(s); i++ {
		h ^= uint32(s[i])
		h *= 16777619
	}
	return h
}

// solveAll runs the obligations through a worker pool. Post-conditions of one return point
// (same assumptions, none of them assumed for the others) are first tried as one conjunction;
// on anything but `unsat` the group is halved until single obligations remain, which go
// through the full pipeline.
func solveAll(obls []*Obligation, workers, budgetMs int, portfolioAll bool) {
	dir, err := os.MkdirTemp("", "govc-")
	if err != nil {
		panic(err)
	}
	defer os.RemoveAll(dir)
	var items [][]*Obligation
	if portfolioAll || os.Getenv("GOVC_BATCH") == "" {
		for _, o := range obls {
			items = append(items, []*Obligation{o})
		}
	} else {
		groups := map[string][]*Obligation{}
		var order []string
		for _, o := range obls {
			k := o.Batch
			if k == "" || o.Expect != "unsat" || o.vc == nil || o.vc.failed != "" {
				items = append(items, []*Obligation{o})
				continue
			}
			if _, ok := groups[k]; !ok {
				order = append(order, k)
			}
			groups[k] = append(groups[k], o)
		}
		for _, k := range order {
			g := groups[k]
			for len(g) > 24 {
				items = append(items, g[:24])
				g = g[24:]
			}
			items = append(items, g)
		}
	}
	var wg sync.WaitGroup
	ch := make(chan []*Obligation)
	var solveGroup func(g []*Obligation)
	solveGroup = func(g []*Obligation) {
		if len(g) == 1 {
			o := g[0]
			if o.vc != nil && o.vc.failed != "" {
				o.Result = &SolveResult{Status: "error", Output: o.vc.failed}
				return
			}
			o.Result = solve(o, dir, budgetMs, portfolioAll)
			return
		}
		var goals []string
		prefix := 0
		for _, o := range g {
			goals = append(goals, o.Goal)
			if o.Prefix > prefix {
				prefix = o.Prefix
			}
		}
		bo := &Obligation{Name: fmt.Sprintf("batch-%x-%d", hashStr(g[0].Name), len(g)), Class: "post", Func: g[0].Func, Goal: and(goals...), Prefix: prefix, Expect: "unsat", vc: g[0].vc, probe: true}
		r := solve(bo, dir, budgetMs, false)
		if r.Status == "unsat" {
			for _, o := range g {
				c := *r
				c.Solver = fmt.Sprintf("%s [one query for %d post-conditions of this return point]", r.Solver, len(g))
				c.Ms = r.Ms / int64(len(g))
				o.Result = &c
			}
			return
		}
		solveGroup(g[:len(g)/2])
		solveGroup(g[len(g)/2:])
	}
	for i := 0; i < workers; i++ {
		wg.Add(1)
		go func() {
			defer wg.Done()
			for g := range ch {
				solveGroup(g)
			}
		}()
	}
	for _, g := range items {
		ch <- g
	}
	close(ch)
	wg.Wait()
}
