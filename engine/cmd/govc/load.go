package main

import (
	"fmt"
	"go/token"
	"go/types"
	"os"
	"path/filepath"
	"sort"
	"strings"

	"golang.org/x/tools/go/packages"
	"golang.org/x/tools/go/ssa"
	"golang.org/x/tools/go/ssa/ssautil"
)

const modulePath = "github.com/getkin/kin-openapi"

type Prog struct {
	repo, verif string
	fset        *token.FileSet
	pkgs        []*packages.Package
	byPath      map[string]*packages.Package
	byName      map[string]*packages.Package // package name -> package (all loaded, deps too); first wins, module packages preferred
	ssa         *ssa.Program
	ssaPkgs     map[string]*ssa.Package
	cs          *Contracts
	tagOf       map[string]int
	tagType     map[int]types.Type
	fnByID      map[string]*ssa.Function // contract id -> function
	idOfFn      map[*ssa.Function]string
	allFns      map[*ssa.Function]bool
	loadSecs    float64
	reachCache  map[*ssa.Function]map[*ssa.Function]bool
	synth       map[string]*FuncContract
	synthUsed   map[*ssa.Function]*FuncContract
	framesUsed  map[string]*FuncContract // contracts of module functions whose preserves clauses were relied on at a call site
	generated   []string // contract text produced by `generate` directives
	genNotes    []string
}

func loadProg(repo, verif string, patterns []string) (*Prog, error) {
	cfg := &packages.Config{
		Mode:       packages.LoadAllSyntax,
		Dir:        repo,
		BuildFlags: []string{"-tags=verif"},
		Env:        append(os.Environ(), "GOFLAGS=-mod=mod", "GOPROXY=off", "GOSUMDB=off", "GOTOOLCHAIN=local"),
		Tests:      false,
	}
	pkgs, err := packages.Load(cfg, patterns...)
	if err != nil {
		return nil, err
	}
	var errs []string
	packages.Visit(pkgs, nil, func(p *packages.Package) {
		for _, e := range p.Errors {
			errs = append(errs, e.Error())
		}
	})
	if len(errs) > 0 {
		return nil, fmt.Errorf("package load errors:\n%s", strings.Join(errs, "\n"))
	}
	p := &Prog{repo: repo, verif: verif, pkgs: pkgs, byPath: map[string]*packages.Package{}, byName: map[string]*packages.Package{},
		tagOf: map[string]int{}, tagType: map[int]types.Type{}, fnByID: map[string]*ssa.Function{}, idOfFn: map[*ssa.Function]string{},
		ssaPkgs: map[string]*ssa.Package{}}
	if len(pkgs) > 0 {
		p.fset = pkgs[0].Fset
	}
	packages.Visit(pkgs, nil, func(pk *packages.Package) {
		p.byPath[pk.PkgPath] = pk
	})
	// name table: prefer module packages, then the shortest path
	var paths []string
	for path := range p.byPath {
		paths = append(paths, path)
	}
	sort.Slice(paths, func(i, j int) bool {
		mi, mj := strings.HasPrefix(paths[i], modulePath), strings.HasPrefix(paths[j], modulePath)
		if mi != mj {
			return mi
		}
		if len(paths[i]) != len(paths[j]) {
			return len(paths[i]) < len(paths[j])
		}
		return paths[i] < paths[j]
	})
	for _, path := range paths {
		pk := p.byPath[path]
		if _, ok := p.byName[pk.Name]; !ok {
			p.byName[pk.Name] = pk
		}
	}
	prog, spkgs := ssautil.AllPackages(pkgs, ssa.InstantiateGenerics|ssa.GlobalDebug)
	prog.Build()
	p.ssa = prog
	for _, sp := range spkgs {
		if sp != nil {
			p.ssaPkgs[sp.Pkg.Path()] = sp
		}
	}
	for _, sp := range prog.AllPackages() {
		p.ssaPkgs[sp.Pkg.Path()] = sp
	}
	p.allFns = ssautil.AllFunctions(prog)
	// contracts
	pkgDirs := map[string]string{}
	for _, pk := range pkgs {
		if len(pk.GoFiles) > 0 {
			pkgDirs[pk.PkgPath] = filepath.Dir(pk.GoFiles[0])
		}
	}
	// contract files may exist in module packages that were loaded as dependencies
	for path, pk := range p.byPath {
		if strings.HasPrefix(path, modulePath) && len(pk.GoFiles) > 0 {
			pkgDirs[path] = filepath.Dir(pk.GoFiles[0])
		}
	}
	cs, err := loadAllContracts(repo, verif, pkgDirs)
	if err != nil {
		return nil, err
	}
	p.cs = cs
	if err := p.generateContracts(); err != nil {
		return nil, err
	}
	if _, err := cs.mergeExtensions(); err != nil {
		return nil, err
	}
	for fn := range p.allFns {
		id := p.contractID(fn)
		if id == "" {
			continue
		}
		p.idOfFn[fn] = id
		if old, ok := p.fnByID[id]; ok {
			// generic instantiations share the id of their origin. A generic origin cannot be
			// verified as such (its types are parameters): verify one instantiation - they all
			// share the body - and prefer a deterministic one.
			oldGeneric := old.Origin() == nil && old.TypeParams().Len() > 0
			newInst := fn.Origin() != nil
			switch {
			case oldGeneric && newInst:
			case !oldGeneric && old.Origin() != nil && newInst && fn.String() < old.String():
			default:
				continue
			}
		}
		p.fnByID[id] = fn
	}
	return p, nil
}

// contractID computes the identifier under which a function's contract is looked up:
// "<pkgpath>::<key>" for module functions, "::<qualified>" for dependencies.
func (p *Prog) contractID(fn *ssa.Function) string {
	if fn == nil {
		return ""
	}
	org := fn
	if fn.Origin() != nil {
		org = fn.Origin()
	}
	// closures: parent id + $n
	if org.Parent() != nil {
		pid := p.contractID(org.Parent())
		if pid == "" {
			return ""
		}
		// ordinal = index among parent's AnonFuncs
		for i, a := range org.Parent().AnonFuncs {
			if a == org {
				return fmt.Sprintf("%s$%d", pid, i+1)
			}
		}
		return ""
	}
	var pkgPath string
	if org.Pkg != nil {
		pkgPath = org.Pkg.Pkg.Path()
	} else if org.Signature.Recv() != nil {
		// method of an instantiated or external type
		if n := namedOf(org.Signature.Recv().Type()); n != nil && n.Obj().Pkg() != nil {
			pkgPath = n.Obj().Pkg().Path()
		}
	}
	if org.Synthetic != "" && !strings.HasPrefix(org.Synthetic, "instance of") {
		// wrappers, bound methods, thunks, init: no contracts of their own
		if org.Synthetic == "package initializer" {
			return ""
		}
	}
	name := org.Name()
	if recv := org.Signature.Recv(); recv != nil {
		rt := recv.Type()
		ptr := false
		if pt, ok := rt.(*types.Pointer); ok {
			ptr = true
			rt = pt.Elem()
		}
		n := namedOf(rt)
		if n == nil {
			return ""
		}
		tn := n.Obj().Name()
		inModule := strings.HasPrefix(pkgPath, modulePath)
		if !inModule {
			tn = pkgPath + "." + tn
		}
		if ptr {
			name = "(*" + tn + ")." + name
		} else {
			name = "(" + tn + ")." + name
		}
		if inModule {
			return pkgPath + "::" + name
		}
		return "::" + name
	}
	if strings.HasPrefix(pkgPath, modulePath) {
		return pkgPath + "::" + name
	}
	return "::" + pkgPath + "." + name
}

func namedOf(t types.Type) *types.Named {
	switch x := t.(type) {
	case *types.Named:
		return x
	case *types.Alias:
		return namedOf(types.Unalias(x))
	case *types.Pointer:
		return namedOf(x.Elem())
	}
	return nil
}

func (p *Prog) contractOf(fn *ssa.Function) *FuncContract {
	id := p.idOfFn[fn]
	if id == "" {
		id = p.contractID(fn)
	}
	if id == "" {
		return nil
	}
	return p.cs.Funcs[id]
}

func inModule(fn *ssa.Function) bool {
	if fn == nil {
		return false
	}
	org := fn
	if fn.Origin() != nil {
		org = fn.Origin()
	}
	for org.Parent() != nil {
		org = org.Parent()
	}
	if org.Pkg != nil {
		return strings.HasPrefix(org.Pkg.Pkg.Path(), modulePath)
	}
	if recv := org.Signature.Recv(); recv != nil {
		if n := namedOf(recv.Type()); n != nil && n.Obj().Pkg() != nil {
			return strings.HasPrefix(n.Obj().Pkg().Path(), modulePath)
		}
	}
	return false
}
