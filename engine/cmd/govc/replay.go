package main

// Replay of solver counterexamples on the real code (DESIGN.md 2.12, D.8).

func tryReplay(p *Prog, o *Obligation, path string) bool { return false }

func runReplayTest(rf *replayFile) int { return 1 }
