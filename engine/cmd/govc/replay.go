package main

// Replay of solver counterexamples on the real code (DESIGN.md 2.12, D.8): the model is
// projected onto the function's inputs (parameters, reachable heap to a small depth), a Go
// test is generated that rebuilds those inputs inside the package (so unexported fields are
// reachable), calls the real function and checks the failed obligation: a panic for safety
// obligations, the post-condition itself when it lies in the executable fragment.

import (
	"context"
	"encoding/json"
	"fmt"
	"go/types"
	"math"
	"os"
	"os/exec"
	"path/filepath"
	"regexp"
	"sort"
	"strconv"
	"strings"
	"time"

	"golang.org/x/tools/go/ssa"
)

var replayRepo = "/repo"

type modelEval struct {
	base     string // SMT query text up to and including (check-sat)
	dir      string
	cache    map[string]string
	runs     int
	deadline time.Time
}

func newModelEval(o *Obligation) *modelEval {
	q := o.smt(false)
	if o.Result != nil && o.Result.CandidateQF {
		q = o.smtQF()
	}
	return &modelEval{base: q, cache: map[string]string{}, deadline: time.Now().Add(12 * time.Second)}
}

// eval returns the model values of the given terms (one solver run).
func (m *modelEval) eval(terms []string) map[string]string {
	out := map[string]string{}
	var need []string
	for _, t := range terms {
		if v, ok := m.cache[t]; ok {
			out[t] = v
		} else {
			need = append(need, t)
		}
	}
	if len(need) == 0 {
		return out
	}
	if m.runs > 80 || time.Now().After(m.deadline) {
		return out
	}
	m.runs++
	var sb strings.Builder
	sb.WriteString(m.base)
	for _, t := range need {
		sb.WriteString("(get-value (" + t + "))\n")
	}
	f, err := os.CreateTemp("", "govc-model-*.smt2")
	if err != nil {
		return out
	}
	defer os.Remove(f.Name())
	f.WriteString(sb.String())
	f.Close()
	ctx, cancel := context.WithTimeout(context.Background(), 8*time.Second)
	defer cancel()
	res, _ := exec.CommandContext(ctx, "z3-new", "-t:6000", f.Name()).CombinedOutput()
	lines := splitSexprs(string(res))
	if len(lines) == 0 || strings.TrimSpace(lines[0]) != "sat" {
		return out
	}
	vals := lines[1:]
	for i, t := range need {
		if i >= len(vals) {
			break
		}
		v := strings.TrimSpace(vals[i])
		// "((term value))"
		if strings.HasPrefix(v, "((") && strings.HasSuffix(v, "))") {
			inner := v[2 : len(v)-2]
			// value is the last s-expression of inner
			val := lastSexpr(inner)
			m.cache[t] = val
			out[t] = val
		}
	}
	return out
}

// splitSexprs splits solver output into top-level items (atoms on their own line or
// balanced s-expressions).
func splitSexprs(s string) []string {
	var out []string
	i := 0
	for i < len(s) {
		for i < len(s) && (s[i] == ' ' || s[i] == '\n' || s[i] == '\t' || s[i] == '\r') {
			i++
		}
		if i >= len(s) {
			break
		}
		if s[i] != '(' {
			j := i
			for j < len(s) && s[j] != '\n' {
				j++
			}
			out = append(out, s[i:j])
			i = j
			continue
		}
		depth := 0
		j := i
		inStr := false
		for j < len(s) {
			c := s[j]
			if c == '"' {
				inStr = !inStr
			} else if !inStr {
				if c == '(' {
					depth++
				} else if c == ')' {
					depth--
					if depth == 0 {
						j++
						break
					}
				}
			}
			j++
		}
		out = append(out, s[i:j])
		i = j
	}
	return out
}

func lastSexpr(s string) string {
	s = strings.TrimSpace(s)
	if strings.HasSuffix(s, ")") {
		depth := 0
		inStr := false
		for i := len(s) - 1; i >= 0; i-- {
			c := s[i]
			if c == '"' {
				inStr = !inStr
			} else if !inStr {
				if c == ')' {
					depth++
				} else if c == '(' {
					depth--
					if depth == 0 {
						return s[i:]
					}
				}
			}
		}
		return s
	}
	if strings.HasSuffix(s, "\"") {
		// string literal: scan back to its opening quote (doubled quotes are escapes)
		i := len(s) - 2
		for i >= 0 {
			if s[i] == '"' {
				if i > 0 && s[i-1] == '"' {
					i -= 2
					continue
				}
				return s[i:]
			}
			i--
		}
		return s
	}
	k := strings.LastIndexAny(s, " \n\t")
	return s[k+1:]
}

func parseSMTInt(v string) (int64, bool) {
	v = strings.TrimSpace(v)
	neg := false
	if strings.HasPrefix(v, "(- ") {
		neg = true
		v = strings.TrimSuffix(strings.TrimPrefix(v, "(- "), ")")
	}
	n, err := strconv.ParseInt(strings.TrimSpace(v), 10, 64)
	if err != nil {
		// may exceed int64 (uint64 values)
		u, err2 := strconv.ParseUint(strings.TrimSpace(v), 10, 64)
		if err2 != nil {
			return 0, false
		}
		return int64(u), true
	}
	if neg {
		n = -n
	}
	return n, true
}

var reUnicode = regexp.MustCompile(`\\u\{([0-9a-fA-F]+)\}`)

func parseSMTString(v string) (string, bool) {
	v = strings.TrimSpace(v)
	if len(v) < 2 || v[0] != '"' || v[len(v)-1] != '"' {
		return "", false
	}
	body := strings.ReplaceAll(v[1:len(v)-1], `""`, `"`)
	var sb strings.Builder
	i := 0
	for i < len(body) {
		if loc := reUnicode.FindStringSubmatchIndex(body[i:]); loc != nil && loc[0] == 0 {
			n, _ := strconv.ParseUint(body[i+loc[2]:i+loc[3]], 16, 32)
			if n < 256 {
				sb.WriteByte(byte(n))
			} else {
				sb.WriteRune(rune(n))
			}
			i += loc[1]
			continue
		}
		sb.WriteByte(body[i])
		i++
	}
	return sb.String(), true
}

func parseSMTFloat(v string) (float64, bool) {
	v = strings.TrimSpace(v)
	switch {
	case strings.HasPrefix(v, "(_ +zero"):
		return 0, true
	case strings.HasPrefix(v, "(_ -zero"):
		return math.Copysign(0, -1), true
	case strings.HasPrefix(v, "(_ +oo"):
		return math.Inf(1), true
	case strings.HasPrefix(v, "(_ -oo"):
		return math.Inf(-1), true
	case strings.HasPrefix(v, "(_ NaN"):
		return math.NaN(), true
	}
	if strings.HasPrefix(v, "(fp ") {
		f := strings.Fields(strings.TrimSuffix(strings.TrimPrefix(v, "(fp "), ")"))
		if len(f) != 3 {
			return 0, false
		}
		bits := func(s string) (uint64, int, bool) {
			if strings.HasPrefix(s, "#b") {
				n, err := strconv.ParseUint(s[2:], 2, 64)
				return n, len(s) - 2, err == nil
			}
			if strings.HasPrefix(s, "#x") {
				n, err := strconv.ParseUint(s[2:], 16, 64)
				return n, 4 * (len(s) - 2), err == nil
			}
			return 0, 0, false
		}
		s, _, ok1 := bits(f[0])
		e, _, ok2 := bits(f[1])
		mnt, _, ok3 := bits(f[2])
		if !ok1 || !ok2 || !ok3 {
			return 0, false
		}
		return math.Float64frombits(s<<63 | e<<52 | mnt), true
	}
	return 0, false
}

// ---- input reconstruction ----

type builder struct {
	vc     *FnVC
	m      *modelEval
	st     *State // entry state
	stmts  []string
	objs   map[string]string // "type@ref" -> Go variable
	n      int
	inputs map[string]string
	ok     bool
	why    string
	pkg    *types.Package
	imports map[string]bool
}

func (b *builder) fresh() string { b.n++; return fmt.Sprintf("x%d", b.n) }

func (b *builder) typeStr(t types.Type) string {
	return types.TypeString(t, func(p *types.Package) string {
		if p == b.pkg {
			return ""
		}
		b.imports[p.Path()] = true
		return p.Name()
	})
}

func (b *builder) get(term string) string {
	r := b.m.eval([]string{term})
	return r[term]
}

// value builds a Go expression for the model value of term (of Go type t).
func (b *builder) value(term string, t types.Type, depth int) string {
	vc := b.vc
	switch u := t.Underlying().(type) {
	case *types.Basic:
		v := b.get(term)
		switch {
		case u.Info()&types.IsBoolean != 0:
			if v == "true" {
				return "true"
			}
			return "false"
		case u.Info()&types.IsInteger != 0:
			n, ok := parseSMTInt(v)
			if !ok {
				return "0"
			}
			if u.Info()&types.IsUnsigned != 0 {
				return fmt.Sprintf("%s(%d)", b.typeStr(t), uint64(n))
			}
			return fmt.Sprintf("%s(%d)", b.typeStr(t), n)
		case u.Info()&types.IsFloat != 0:
			f, ok := parseSMTFloat(v)
			if !ok {
				return "0"
			}
			b.imports["math"] = true
			return fmt.Sprintf("%s(math.Float64frombits(0x%x))", b.typeStr(t), math.Float64bits(f))
		case u.Info()&types.IsString != 0:
			s, _ := parseSMTString(v)
			return fmt.Sprintf("%s(%q)", b.typeStr(t), s)
		}
		return "nil"
	case *types.Pointer:
		v := b.get(term)
		ref, ok := parseSMTInt(v)
		if !ok || ref == 0 {
			return "nil"
		}
		key := fmt.Sprintf("%s@%d", types.TypeString(u.Elem(), nil), ref)
		if name, ok := b.objs[key]; ok {
			return name
		}
		name := b.fresh()
		b.objs[key] = name
		b.stmts = append(b.stmts, fmt.Sprintf("%s := new(%s)", name, b.typeStr(u.Elem())))
		if depth <= 0 {
			return name
		}
		b.fill(name, fmt.Sprint(refLit(ref)), u.Elem(), depth)
		return name
	case *types.Slice:
		lnS := b.get("(sl-len " + term + ")")
		arrS := b.get("(sl-arr " + term + ")")
		ln, _ := parseSMTInt(lnS)
		arr, _ := parseSMTInt(arrS)
		off := int64(0)
		if arr == 0 {
			return "nil"
		}
		if ln > 6 {
			ln = 6
			b.why = "slice truncated"
		}
		if _, isStruct := u.Elem().Underlying().(*types.Struct); isStruct {
			return b.typeStr(t) + "{}"
		}
		comp, _ := vc.elemComp(u.Elem())
		var elems []string
		for i := int64(0); i < ln; i++ {
			et := sel(sel(vc.cur(b.st, comp), refLit(arr)), intLitI(off+i))
			elems = append(elems, b.value(et, u.Elem(), depth-1))
		}
		return b.typeStr(t) + "{" + strings.Join(elems, ", ") + "}"
	case *types.Map:
		v := b.get(term)
		ref, ok := parseSMTInt(v)
		if !ok || ref == 0 {
			return "nil"
		}
		key := fmt.Sprintf("%s@%d", types.TypeString(t, nil), ref)
		if name, ok := b.objs[key]; ok {
			return name
		}
		name := b.fresh()
		b.objs[key] = name
		b.stmts = append(b.stmts, fmt.Sprintf("%s := %s{}", name, b.typeStr(t)))
		mh, mv, ks, _ := vc.mapComps(u)
		if ks != sString && ks != sInt {
			return name
		}
		// candidate keys: every key term used with this map sort in the VC, plus string literals
		seen := map[string]bool{}
		for _, kt := range vc.keyTerms[ks] {
			kv := b.get(kt)
			if kv == "" || seen[kv] {
				continue
			}
			seen[kv] = true
			has := b.get(sel(sel(vc.cur(b.st, mh), refLit(ref)), kv))
			if has != "true" {
				continue
			}
			var kGo string
			if ks == sString {
				s, _ := parseSMTString(kv)
				kGo = fmt.Sprintf("%q", s)
			} else {
				n, _ := parseSMTInt(kv)
				kGo = fmt.Sprint(n)
			}
			val := b.value(sel(sel(vc.cur(b.st, mv), refLit(ref)), kv), u.Elem(), depth-1)
			b.stmts = append(b.stmts, fmt.Sprintf("%s[%s] = %s", name, kGo, val))
		}
		return name
	case *types.Interface:
		tagS := b.get("(if-tag " + term + ")")
		tag, _ := parseSMTInt(tagS)
		if tag == 0 {
			return "nil"
		}
		ct, ok := vc.enc.tagType[int(tag)]
		if !ok {
			b.why = "interface value of a type unknown to the VC"
			return "nil"
		}
		inner := vc.enc.unbox("(if-data "+term+")", ct)
		return b.typeStr(t) + "(" + b.value(inner, ct, depth-1) + ")"
	case *types.Struct:
		sortName := vc.enc.sortOf(t)
		var fs []string
		for i := 0; i < u.NumFields(); i++ {
			fs = append(fs, u.Field(i).Name()+": "+b.value(fmt.Sprintf("(%s$%d %s)", sortName, i, term), u.Field(i).Type(), depth-1))
		}
		return b.typeStr(t) + "{" + strings.Join(fs, ", ") + "}"
	case *types.Signature:
		return "nil"
	}
	return "nil"
}

func refLit(r int64) string { return intLitI(r) }

// fill assigns the fields of the object at ref (of type t) into Go variable name.
func (b *builder) fill(name, ref string, t types.Type, depth int) {
	vc := b.vc
	switch u := t.Underlying().(type) {
	case *types.Struct:
		// one solver run for all the fields
		var pre []string
		for i := 0; i < u.NumFields(); i++ {
			comp := "F$" + typeShort(t) + "$" + u.Field(i).Name()
			if _, used := vc.compSort[comp]; used {
				ft := sel(vc.cur(b.st, comp), ref)
				switch vc.enc.sortOf(u.Field(i).Type()) {
				case sSlice:
					pre = append(pre, "(sl-len "+ft+")", "(sl-arr "+ft+")")
				case sIface:
					pre = append(pre, "(if-tag "+ft+")", "(if-data "+ft+")")
				default:
					if _, isStruct := u.Field(i).Type().Underlying().(*types.Struct); !isStruct {
						pre = append(pre, ft)
					}
				}
			}
		}
		b.m.eval(pre)
		for i := 0; i < u.NumFields(); i++ {
			f := u.Field(i)
			if _, nested := f.Type().Underlying().(*types.Struct); nested {
				// embedded by value: its fields live at the emb address
				fn := "emb$" + typeShort(t) + "$" + f.Name()
				if !vc.enc.declared[fn] {
					continue
				}
				b.fill(name+"."+f.Name(), "("+fn+" "+ref+")", f.Type(), depth)
				continue
			}
			comp := "F$" + typeShort(t) + "$" + f.Name()
			if _, used := vc.compSort[comp]; !used {
				continue // the VC never mentions this field
			}
			val := b.value(sel(vc.cur(b.st, comp), ref), f.Type(), depth-1)
			if val == "nil" || val == "false" || val == "0" {
				continue
			}
			if f.Pkg() != nil && f.Pkg() != b.pkg && !f.Exported() {
				b.why = "unexported field of another package"
				continue
			}
			b.stmts = append(b.stmts, fmt.Sprintf("%s.%s = %s", name, f.Name(), val))
		}
	default:
		comp, _ := vc.cellComp(t)
		if _, used := vc.compSort[comp]; !used {
			return
		}
		val := b.value(sel(vc.cur(b.st, comp), ref), t, depth-1)
		b.stmts = append(b.stmts, fmt.Sprintf("*%s = %s", name, val))
	}
}

// tryReplay builds and runs the replay test; it returns true when the real code confirms the
// violation. The replay file at path is updated with what was found.
func tryReplay(p *Prog, o *Obligation, path string) bool {
	vc := o.vc
	if vc == nil || vc.failed != "" || o.Class == "frame-scan" {
		return false
	}
	fn := vc.fn
	var rf replayFile
	data, err := os.ReadFile(path)
	if err != nil || json.Unmarshal(data, &rf) != nil {
		return false
	}
	save := func() {
		d, _ := json.MarshalIndent(rf, "", " ")
		os.WriteFile(path, d, 0o644)
	}
	if fn.Parent() != nil || fn.Pkg == nil {
		rf.Replayed = "not attempted: closures are not callable from a test"
		save()
		return false
	}
	b := &builder{vc: vc, m: newModelEval(o), st: vc.entry, objs: map[string]string{}, inputs: map[string]string{}, pkg: fn.Pkg.Pkg, imports: map[string]bool{}}
	// inputs
	var args []string
	var recvExpr string
	for i, prm := range fn.Params {
		term := "p$" + sanitize(prm.Name())
		ge := b.value(term, prm.Type(), 3)
		b.inputs[prm.Name()] = ge
		if i == 0 && fn.Signature.Recv() != nil {
			recvExpr = ge
			continue
		}
		args = append(args, ge)
	}
	rf.Inputs = map[string]string{}
	for k, v := range b.inputs {
		rf.Inputs[k] = v
	}
	rf.Inputs["(construction)"] = strings.Join(b.stmts, "; ")
	// the check
	var check string
	callee := fn.Name()
	call := callee + "(" + strings.Join(args, ", ") + ")"
	if recvExpr != "" {
		call = "(" + recvExpr + ")." + callee + "(" + strings.Join(args, ", ") + ")"
		if _, isPtr := fn.Signature.Recv().Type().(*types.Pointer); isPtr && recvExpr == "nil" {
			call = "((" + b.typeStr(fn.Signature.Recv().Type()) + ")(nil))." + callee + "(" + strings.Join(args, ", ") + ")"
		}
	}
	if fn.Signature.Variadic() && len(args) > 0 {
		call = strings.TrimSuffix(call, ")") + "...)"
	}
	nres := fn.Signature.Results().Len()
	var lhs string
	if nres > 0 {
		var rs []string
		for i := 0; i < nres; i++ {
			rs = append(rs, fmt.Sprintf("r%d", i))
		}
		lhs = strings.Join(rs, ", ") + " := "
	}
	switch o.Class {
	case "safety", "call-pre":
		check = "\tdefer func() {\n\t\tif r := recover(); r != nil {\n\t\t\tt.Logf(\"GOVC-REPLAY-CONFIRMED panic: %v\", r)\n\t\t\treturn\n\t\t}\n\t\tt.Log(\"GOVC-REPLAY-NOT-CONFIRMED: returned normally\")\n\t}()\n"
		check += "\t" + strings.Replace(lhs, ":=", "=", 1)
		if nres > 0 {
			var rs []string
			for i := 0; i < nres; i++ {
				rs = append(rs, "_")
			}
			check = strings.Replace(check, strings.Replace(lhs, ":=", "=", 1), strings.Join(rs, ", ")+" = ", 1)
		}
		check += call + "\n"
	case "post":
		// executable fragment of the post-condition (the part this obligation checks)
		if o.PartExpr == nil {
			rf.Replayed = "not attempted: post-condition not found"
			save()
			return false
		}
		cl := &Clause{E: o.PartExpr}
		gc := &goCompiler{b: b, vc: vc, results: nres, params: map[string]bool{}}
		for _, prm := range fn.Params {
			gc.params[prm.Name()] = true
		}
		cond, ok := gc.compile(cl.E)
		if !ok {
			rf.Replayed = "not attempted: post-condition outside the executable fragment (" + gc.why + ")"
			save()
			return false
		}
		// bind parameters to the constructed inputs
		var binds []string
		for _, prm := range fn.Params {
			binds = append(binds, fmt.Sprintf("\t%s := %s\n\t_ = %s\n", prm.Name(), b.inputs[prm.Name()], prm.Name()))
		}
		// call through the bound names
		var argNames []string
		for i, prm := range fn.Params {
			if i == 0 && fn.Signature.Recv() != nil {
				continue
			}
			argNames = append(argNames, prm.Name())
		}
		call2 := callee + "(" + strings.Join(argNames, ", ") + ")"
		if fn.Signature.Recv() != nil {
			call2 = fn.Params[0].Name() + "." + call2
		}
		check = strings.Join(binds, "") + strings.Join(gc.pre, "") + "\t" + lhs + call2 + "\n"
		for i := 0; i < nres; i++ {
			check += fmt.Sprintf("\t_ = r%d\n", i)
		}
		check += "\tif !(" + cond + ") {\n\t\tt.Log(\"GOVC-REPLAY-CONFIRMED post-condition false on the real code\")\n\t} else {\n\t\tt.Log(\"GOVC-REPLAY-NOT-CONFIRMED: post-condition holds for this input\")\n\t}\n"
	default:
		rf.Replayed = "not attempted: obligation class " + o.Class
		save()
		return false
	}
	var imps []string
	imps = append(imps, "\"testing\"")
	for ip := range b.imports {
		if ip == fn.Pkg.Pkg.Path() {
			continue
		}
		imps = append(imps, fmt.Sprintf("%q", ip))
	}
	sort.Strings(imps)
	testName := "TestGovcReplay"
	src := "package " + fn.Pkg.Pkg.Name() + "\n\nimport (\n\t" + strings.Join(imps, "\n\t") + "\n)\n\nfunc " + testName + "(t *testing.T) {\n"
	for _, s := range b.stmts {
		src += "\t" + s + "\n"
	}
	for _, v := range b.objs {
		src += "\t_ = " + v + "\n"
	}
	src += check + "}\n"
	rf.ReplayTest = src
	rf.Function = fn.Pkg.Pkg.Path()
	save()
	code := runReplayTest(&rf)
	rf2 := rf
	d, _ := json.MarshalIndent(rf2, "", " ")
	os.WriteFile(path, d, 0o644)
	return code == 0
}

// runReplayTest runs the generated test in the package through an overlay (nothing is written
// to the repository). Exit code 0 = the violation is confirmed on the real code.
func runReplayTest(rf *replayFile) int {
	repo := replayRepo
	pkgPath := rf.Function
	rel := strings.TrimPrefix(pkgPath, modulePath)
	dir := filepath.Join(repo, rel)
	tmp, err := os.MkdirTemp("", "govc-replay-")
	if err != nil {
		return 2
	}
	defer os.RemoveAll(tmp)
	testFile := filepath.Join(tmp, "zz_govc_replay_test.go")
	os.WriteFile(testFile, []byte(rf.ReplayTest), 0o644)
	ov := map[string]any{"Replace": map[string]string{filepath.Join(dir, "zz_govc_replay_test.go"): testFile}}
	ovData, _ := json.Marshal(ov)
	ovFile := filepath.Join(tmp, "overlay.json")
	os.WriteFile(ovFile, ovData, 0o644)
	ctx, cancel := context.WithTimeout(context.Background(), 120*time.Second)
	defer cancel()
	cmd := exec.CommandContext(ctx, "go", "test", "-overlay", ovFile, "-vet=off", "-count=1", "-timeout", "60s", "-run", "^TestGovcReplay$", "-v", ".")
	cmd.Dir = dir
	cmd.Env = append(os.Environ(), "GOFLAGS=-mod=mod", "GOPROXY=off", "GOSUMDB=off", "GOTOOLCHAIN=local")
	out, _ := cmd.CombinedOutput()
	s := string(out)
	if len(s) > 6000 {
		s = s[:6000]
	}
	rf.ReplayOut = s
	switch {
	case strings.Contains(s, "GOVC-REPLAY-CONFIRMED"):
		rf.Replayed = "confirmed on the real code"
		fmt.Println("replay: confirmed on the real code")
		return 0
	case strings.Contains(s, "panic:") && !strings.Contains(s, "GOVC-REPLAY-NOT-CONFIRMED"):
		rf.Replayed = "confirmed on the real code (panic)"
		fmt.Println("replay: confirmed on the real code (panic)")
		return 0
	case strings.Contains(s, "GOVC-REPLAY-NOT-CONFIRMED"):
		rf.Replayed = "model did not reproduce on the real code"
		fmt.Println("replay: model did not reproduce on the real code")
		return 1
	}
	rf.Replayed = "replay test did not run: " + firstLine(s)
	fmt.Println("replay: test did not run:", firstLine(s))
	return 1
}

// ---- contract expressions -> Go (executable fragment) ----

type goCompiler struct {
	b       *builder
	vc      *FnVC
	results int
	params  map[string]bool
	pre     []string // statements evaluated before the call (old(...) snapshots)
	why     string
	n       int
	bound   map[string]string
}

func (g *goCompiler) fail(why string) (string, bool) {
	if g.why == "" {
		g.why = why
	}
	return "", false
}

func (g *goCompiler) compile(x Expr) (string, bool) { return g.compileT(x, "") }

func (g *goCompiler) compileT(x Expr, want string) (string, bool) {
	switch n := x.(type) {
	case *EInt:
		return n.Val, true
	case *EFloat:
		return n.Val, true
	case *EStr:
		return strconv.Quote(n.Val), true
	case *EChar:
		return fmt.Sprintf("%d", n.Val), true
	case *EIdent:
		if g.bound != nil {
			if v, ok := g.bound[n.Name]; ok {
				return v, true
			}
		}
		switch n.Name {
		case "nil", "true", "false":
			return n.Name, true
		case "result":
			return "r0", true
		}
		if g.params[n.Name] {
			return n.Name, true
		}
		if _, ghost := g.vc.prog.cs.Ghosts[n.Name]; ghost {
			return g.fail("ghost state")
		}
		if g.b.pkg.Scope().Lookup(n.Name) != nil {
			return n.Name, true
		}
		return g.fail("identifier " + n.Name)
	case *EOld:
		inner, ok := g.compile(n.X)
		if !ok {
			return "", false
		}
		g.n++
		name := fmt.Sprintf("old%d", g.n)
		g.pre = append(g.pre, fmt.Sprintf("\t%s := %s\n", name, inner))
		return name, true
	case *EUn:
		v, ok := g.compile(n.X)
		if !ok {
			return "", false
		}
		return "(" + n.Op + v + ")", true
	case *EBin:
		l, ok1 := g.compile(n.L)
		if !ok1 {
			return "", false
		}
		r, ok2 := g.compile(n.R)
		if !ok2 {
			return "", false
		}
		switch n.Op {
		case "==>":
			return "(!(" + l + ") || (" + r + "))", true
		case "<==>":
			return "((" + l + ") == (" + r + "))", true
		}
		return "(" + l + " " + n.Op + " " + r + ")", true
	case *ECond:
		c, ok1 := g.compile(n.C)
		a, ok2 := g.compileT(n.A, want)
		bb, ok3 := g.compileT(n.B, want)
		if !ok1 || !ok2 || !ok3 {
			return "", false
		}
		ty := want
		if ty == "" {
			ty = g.typeOf(n.A)
		}
		if ty == "" {
			ty = g.typeOf(n.B)
		}
		if ty == "" {
			return g.fail("untypable conditional")
		}
		return "func() " + ty + " { if " + c + " { return " + a + " }; return " + bb + " }()", true
	case *ESel:
		if id, ok := n.X.(*EIdent); ok && id.Name == "result" {
			return "r" + n.Name, true
		}
		v, ok := g.compile(n.X)
		if !ok {
			return "", false
		}
		return v + "." + n.Name, true
	case *EIndex:
		v, ok1 := g.compile(n.X)
		i, ok2 := g.compile(n.I)
		if !ok1 || !ok2 {
			return "", false
		}
		return v + "[" + i + "]", true
	case *ESlice:
		v, ok := g.compile(n.X)
		if !ok {
			return "", false
		}
		lo, hi := "", ""
		if n.Lo != nil {
			lo, ok = g.compile(n.Lo)
			if !ok {
				return "", false
			}
		}
		if n.Hi != nil {
			hi, ok = g.compile(n.Hi)
			if !ok {
				return "", false
			}
		}
		return v + "[" + lo + ":" + hi + "]", true
	case *EQuant:
		return g.compileQuant(n)
	case *ESpecScope:
		return g.compileT(n.X, want)
	case *ELet:
		v, ok := g.compile(n.Val)
		if !ok {
			return "", false
		}
		saved := g.bound
		nb := map[string]string{}
		for k, x := range saved {
			nb[k] = x
		}
		g.n++
		vn := fmt.Sprintf("l%d", g.n)
		nb[n.Name] = vn
		g.bound = nb
		body, ok2 := g.compileT(n.Body, want)
		g.bound = saved
		if !ok2 {
			return "", false
		}
		ty := want
		if ty == "" {
			ty = "bool"
		}
		return "func() " + ty + " { " + vn + " := " + v + "; _ = " + vn + "; return " + body + " }()", true
	case *ECall:
		id, ok := n.Fun.(*EIdent)
		if !ok {
			return g.fail("call")
		}
		var args []string
		for _, a := range n.Args {
			if _, isT := a.(*ETypeLit); isT {
				return g.fail("type literal")
			}
			v, ok := g.compile(a)
			if !ok {
				return "", false
			}
			args = append(args, v)
		}
		switch id.Name {
		case "contains", "hasPrefix", "hasSuffix", "indexOf":
			g.b.imports["strings"] = true
		}
		switch id.Name {
		case "len", "cap":
			return id.Name + "(" + args[0] + ")", true
		case "has":
			return "func() bool { _, ok := " + args[0] + "[" + args[1] + "]; return ok }()", true
		case "contains":
			return "strings.Contains(" + args[0] + ", " + args[1] + ")", true
		case "hasPrefix":
			return "strings.HasPrefix(" + args[0] + ", " + args[1] + ")", true
		case "hasSuffix":
			return "strings.HasSuffix(" + args[0] + ", " + args[1] + ")", true
		case "indexOf":
			return "strings.Index(" + args[0] + ", " + args[1] + ")", true
		case "fromCode":
			return "string([]byte{byte(" + args[0] + ")})", true
		case "isNaN":
			g.b.imports["math"] = true
			return "math.IsNaN(" + args[0] + ")", true
		case "isInf":
			g.b.imports["math"] = true
			return "math.IsInf(" + args[0] + ", 0)", true
		}
		switch id.Name {
		case "runes":
			g.b.imports["unicode/utf8"] = true
			return "utf8.RuneCountInString(" + args[0] + ")", true
		case "same":
			return "(" + args[0] + " == " + args[1] + ")", true
		}
		if tw, ok := goTwins[id.Name]; ok && len(args) == tw.arity {
			for _, imp := range tw.imports {
				g.b.imports[imp] = true
			}
			out := tw.tmpl
			for i, a := range args {
				out = strings.ReplaceAll(out, fmt.Sprintf("$%d", i), a)
			}
			return out, true
		}
		sd, ok := g.vc.prog.cs.Specs[id.Name]
		if !ok || sd.Body == nil {
			return g.fail("uninterpreted or builtin function " + id.Name)
		}
		// inline the spec: bind parameters through an immediately-invoked closure
		saved := g.bound
		nb := map[string]string{}
		for k, v := range saved {
			nb[k] = v
		}
		var decls []string
		for i, p := range sd.Params {
			g.n++
			vn := fmt.Sprintf("a%d", g.n)
			pt := g.goType(p.Ty, sd.Pkg)
			if pt == "" {
				return g.fail("parameter type of " + sd.Name)
			}
			decls = append(decls, fmt.Sprintf("var %s %s = %s; _ = %s", vn, pt, args[i], vn))
			nb[p.Name] = vn
		}
		rt := g.goType(sd.Ret, sd.Pkg)
		if rt == "" {
			return g.fail("return type of " + sd.Name)
		}
		g.bound = nb
		body, ok2 := g.compileT(sd.Body, rt)
		g.bound = saved
		if !ok2 {
			return "", false
		}
		return "func() " + rt + " { " + strings.Join(decls, "; ") + "; return " + body + " }()", true
	}
	return g.fail(fmt.Sprintf("%T", x))
}

func (g *goCompiler) goType(te TypeExpr, pkg string) string {
	env := g.vc.newEnv(g.vc.entry, g.vc.entry)
	if pkg != "" {
		if pk := g.vc.prog.byPath[pkg]; pk != nil {
			env.pkg = pk.Types
		}
	}
	var t types.Type
	func() {
		defer func() { recover() }()
		t, _ = env.resolveType(te)
	}()
	if t == nil {
		return ""
	}
	return g.b.typeStr(t)
}

// typeOf: a Go type for a conditional's branches (best effort, via the contract typer).
func (g *goCompiler) typeOf(x Expr) string {
	switch n := x.(type) {
	case *EBin:
		switch n.Op {
		case "==", "!=", "<", "<=", ">", ">=", "&&", "||", "==>", "<==>":
			return "bool"
		}
	case *EUn:
		if n.Op == "!" {
			return "bool"
		}
	case *EQuant:
		return "bool"
	case *EIdent:
		if n.Name == "true" || n.Name == "false" {
			return "bool"
		}
	}
	var ty types.Type
	func() {
		defer func() { recover() }()
		env := g.vc.newEnv(g.vc.entry, g.vc.entry)
		if g.bound != nil {
			return
		}
		saved := len(g.vc.stream)
		tv := env.tr(x)
		g.vc.stream = g.vc.stream[:saved]
		ty = tv.Ty
	}()
	if ty == nil {
		switch x.(type) {
		case *EStr:
			return "string"
		case *EInt:
			return "int"
		}
		return ""
	}
	if b, ok := ty.Underlying().(*types.Basic); ok && b.Info()&types.IsUntyped != 0 {
		ty = types.Default(ty)
	}
	return g.b.typeStr(ty)
}

var _ = ssa.NaiveForm

// goTwins: executable counterparts of uninterpreted specification functions, used only to
// evaluate a failed post-condition on the real code during replay (DESIGN.md 2.12). Each is
// the definition the contract files give in words.
type goTwin struct {
	arity   int
	tmpl    string
	imports []string
}

var goTwins = map[string]goTwin{
	"inStrings":     {2, "func() bool { for _, x := range $0 { if x == $1 { return true } }; return false }()", nil},
	"isInt":         {1, "big.NewFloat($0).IsInt()", []string{"math/big"}},
	"valid":         {2, "(($0).VisitJSON($1) == nil)", nil},
	"isEmptySchema": {1, "($0).IsEmpty()", nil},
	"jsonEq":        {2, "reflect.DeepEqual($0, $1)", []string{"reflect"}},
	"distinct":      {1, "isSliceOfUniqueItems($0)", nil},
	"compilesGo":    {1, "func() bool { _, err := regexp.Compile($0); return err == nil }()", []string{"regexp"}},
	"goMatches":     {2, "func() bool { re, err := regexp.Compile($0); return err == nil && re.MatchString($1) }()", []string{"regexp"}},
	"intoGo":        {1, "intoGoRegexp($0)", nil},
}

// compileQuant: bounded quantifiers become loops.
//   forall i int :: 0 <= i && i < N ==> P        exists i int :: 0 <= i && i < N && P
//   forall k string :: has(m, k) ==> P
func (g *goCompiler) compileQuant(q *EQuant) (string, bool) {
	if len(q.Vars) != 1 {
		return g.fail("quantifier over several variables")
	}
	v := q.Vars[0]
	var guard, body Expr
	if b, ok := q.Body.(*EBin); ok && q.Forall && b.Op == "==>" {
		guard, body = b.L, b.R
	} else if ok && !q.Forall && b.Op == "&&" {
		// (0 <= i && i < N) && P  parses as ((0<=i && i<N) && P)
		guard, body = b.L, b.R
	} else {
		return g.fail("quantifier shape")
	}
	saved := g.bound
	nb := map[string]string{}
	for k, x := range saved {
		nb[k] = x
	}
	g.n++
	vn := fmt.Sprintf("q%d", g.n)
	nb[v.Name] = vn
	defer func() { g.bound = saved }()
	// integer range
	if gb, ok := guard.(*EBin); ok && gb.Op == "&&" && v.Ty.Kind == "name" && v.Ty.Name == "int" {
		lo, ok1 := gb.L.(*EBin)
		hi, ok2 := gb.R.(*EBin)
		if ok1 && ok2 && lo.Op == "<=" && hi.Op == "<" {
			if id, ok := lo.R.(*EIdent); ok && id.Name == v.Name {
				if id2, ok := hi.L.(*EIdent); ok && id2.Name == v.Name {
					g.bound = saved
					loS, okA := g.compile(lo.L)
					hiS, okB := g.compile(hi.R)
					g.bound = nb
					bodyS, okC := g.compile(body)
					if !okA || !okB || !okC {
						return "", false
					}
					if q.Forall {
						return "func() bool { for " + vn + " := int(" + loS + "); " + vn + " < int(" + hiS + "); " + vn + "++ { if !(" + bodyS + ") { return false } }; return true }()", true
					}
					return "func() bool { for " + vn + " := int(" + loS + "); " + vn + " < int(" + hiS + "); " + vn + "++ { if " + bodyS + " { return true } }; return false }()", true
				}
			}
		}
	}
	// keys of a map
	if c, ok := guard.(*ECall); ok && q.Forall {
		if id, ok := c.Fun.(*EIdent); ok && id.Name == "has" && len(c.Args) == 2 {
			if kid, ok := c.Args[1].(*EIdent); ok && kid.Name == v.Name {
				g.bound = saved
				mS, okA := g.compile(c.Args[0])
				g.bound = nb
				bodyS, okB := g.compile(body)
				if !okA || !okB {
					return "", false
				}
				return "func() bool { for " + vn + " := range " + mS + " { if !(" + bodyS + ") { return false } }; return true }()", true
			}
		}
	}
	return g.fail("unbounded quantifier")
}
