package main

import (
	"go/types"
	"encoding/json"
	"flag"
	"fmt"
	"os"
	"path/filepath"
	"runtime"
	"runtime/debug"
	"sort"
	"strconv"
	"strings"
	"time"

	_ "golang.org/x/tools/go/packages"
	"golang.org/x/tools/go/ssa"
)

type KnownFinding struct {
	Property   string `json:"property"`
	Obligation string `json:"obligation"`
	Witness    string `json:"witness,omitempty"` // formula over the function's inputs; the obligation must hold under its negation
	Input      string `json:"input"`
	Note       string `json:"note,omitempty"`
	Status     string `json:"status,omitempty"` // "open" (default) or "fixed"
	Commit     string `json:"commit,omitempty"`
}

type KnownFile struct {
	Findings []KnownFinding `json:"findings"`
	Fixed    []string       `json:"fixed"`
}

func loadKnown(verif string) *KnownFile {
	kf := &KnownFile{}
	data, err := os.ReadFile(filepath.Join(verif, "known_findings.json"))
	if err != nil {
		return kf
	}
	if err := json.Unmarshal(data, kf); err != nil {
		fmt.Fprintf(os.Stderr, "known_findings.json: %v\n", err)
		os.Exit(2)
	}
	return kf
}

func main() {
	if len(os.Args) < 2 {
		fmt.Fprintln(os.Stderr, "usage: govc check|dump|list|replay ...")
		os.Exit(2)
	}
	switch os.Args[1] {
	case "check":
		os.Exit(cmdCheck(os.Args[2:]))
	case "dump":
		os.Exit(cmdDump(os.Args[2:]))
	case "list":
		os.Exit(cmdList(os.Args[2:]))
	case "replay":
		os.Exit(cmdReplay(os.Args[2:]))
	default:
		fmt.Fprintln(os.Stderr, "unknown command", os.Args[1])
		os.Exit(2)
	}
}

func loadFor(repo, verif string) *Prog {
	t0 := time.Now()
	p, err := loadProg(repo, verif, []string{"./..."})
	if err != nil {
		fmt.Fprintf(os.Stderr, "govc: load failed: %v\n", err)
		os.Exit(2)
	}
	p.loadSecs = time.Since(t0).Seconds()
	runtime.GC()
	debug.SetGCPercent(400)
	return p
}

func cmdList(args []string) int {
	fs := flag.NewFlagSet("list", flag.ExitOnError)
	repo := fs.String("repo", "/repo", "")
	verif := fs.String("verif", "/verif", "")
	fs.Parse(args)
	p := loadFor(*repo, *verif)
	var ids []string
	for id := range p.cs.Funcs {
		ids = append(ids, id)
	}
	sort.Strings(ids)
	for _, id := range ids {
		fc := p.cs.Funcs[id]
		fn := p.fnByID[id]
		st := "ok"
		if fn == nil && (fc.Kind == "func" || fc.Kind == "trusted") {
			st = "NO-SUCH-FUNCTION"
		}
		fmt.Printf("%-8s %-70s tags=%v %s\n", fc.Kind, id, fc.Tags, st)
	}
	return 0
}

func cmdDump(args []string) int {
	fs := flag.NewFlagSet("dump", flag.ExitOnError)
	repo := fs.String("repo", "/repo", "")
	verif := fs.String("verif", "/verif", "")
	fn := fs.String("func", "", "contract id (pkgpath::key) or suffix")
	obl := fs.String("obl", "", "print the SMT query of this obligation")
	ssaOnly := fs.Bool("ssa", false, "print SSA only")
	fs.Parse(args)
	p := loadFor(*repo, *verif)
	for id, f := range p.fnByID {
		if !strings.HasSuffix(id, *fn) {
			continue
		}
		if *ssaOnly {
			f.WriteTo(os.Stdout)
			continue
		}
		fc := p.cs.Funcs[id]
		vc := newFnVC(p, f, fc, id)
		vc.generate()
		if vc.failed != "" {
			fmt.Println("FAILED:", vc.failed)
		}
		if *obl != "" {
			for _, o := range vc.obls {
				if strings.Contains(o.Name, *obl) {
					fmt.Println("; obligation", o.Name)
					fmt.Println(o.smt(true))
				}
			}
			continue
		}
		fmt.Println(vc.describe())
		for _, o := range vc.obls {
			fmt.Printf("; OBL %s prefix=%d goal=%s\n", o.Name, o.Prefix, o.Goal)
		}
	}
	return 0
}

// ---- check ----

type smokeStat struct {
	total       int
	unreachable []*Obligation
}

type evObl struct {
	Name   string `json:"name"`
	Class  string `json:"class"`
	Status string `json:"status"`
	Solver string `json:"solver,omitempty"`
	Ms     int64  `json:"ms"`
	Bytes  int    `json:"smt_bytes,omitempty"`
	Pos    string `json:"pos,omitempty"`
	Src    string `json:"src,omitempty"`
}

func hasTag(tags []string, t string) bool {
	for _, x := range tags {
		if x == t {
			return true
		}
	}
	return false
}

func cmdCheck(args []string) int {
	fs := flag.NewFlagSet("check", flag.ExitOnError)
	repo := fs.String("repo", "/repo", "")
	verif := fs.String("verif", "/verif", "")
	prop := fs.String("property", "", "property id")
	tier := fs.String("tier", "quick", "quick|thorough")
	workers := fs.Int("workers", 12, "")
	only := fs.String("only", "", "restrict to functions whose id contains this")
	verbose := fs.Bool("v", false, "")
	noEvidence := fs.Bool("no-evidence", false, "do not write the evidence file")
	replayDirFlag := fs.String("replaydir", "", "directory for replay files (default <verif>/replays)")
	fs.Parse(args)
	if *prop == "" {
		fmt.Fprintln(os.Stderr, "check: -property required")
		return 2
	}
	if t := os.Getenv("VERIF_TIER"); t == "quick" || t == "thorough" {
		*tier = t
	}
	seed := 0
	if s := os.Getenv("VERIF_SEED"); s != "" {
		seed, _ = strconv.Atoi(s)
	}
	t0 := time.Now()
	replayRepo = *repo
	p := loadFor(*repo, *verif)
	known := loadKnown(*verif)
	// property views: `view P func K` replaces K's contract in a run for P and is absent otherwise
	{
		var viewIDs []string
		for id, fc := range p.cs.Funcs {
			if fc.View != "" {
				viewIDs = append(viewIDs, id)
			}
		}
		sort.Strings(viewIDs)
		for _, id := range viewIDs {
			fc := p.cs.Funcs[id]
			delete(p.cs.Funcs, id)
			if fc.View == *prop {
				p.cs.Funcs[strings.TrimSuffix(id, "@"+fc.View)] = fc
			}
		}
	}

	budget := 8000
	if *tier == "thorough" {
		budget = 60000
	}

	// functions under contract for this property
	var ids []string
	for id, fc := range p.cs.Funcs {
		if fc.Kind != "func" {
			continue
		}
		claimed := hasTag(fc.Tags, *prop)
		if !claimed && len(fc.Tags) > 0 && (hasTag(strings.Fields(fc.Options["safety-tags"]), *prop) || hasTag(strings.Fields(fc.Options["callpre-tags"]), *prop)) {
			// a function verified for another property whose safety obligations belong to this one
			claimed = true
		}
		if !claimed {
			for _, cl := range fc.Ensures {
				if hasTag(cl.Tags, *prop) {
					claimed = true
				}
			}
			for _, cl := range fc.Preserves {
				if hasTag(cl.Tags, *prop) {
					claimed = true
				}
			}
			for _, ac := range fc.AtCalls {
				if hasTag(ac.Cl.Tags, *prop) {
					claimed = true
				}
			}
		}
		if !claimed {
			continue
		}
		if *only != "" && !strings.Contains(id, *only) {
			continue
		}
		ids = append(ids, id)
	}
	sort.Strings(ids)

	var all []*Obligation
	var vcs []*FnVC
	var missing []string
	guarded := map[string]*Obligation{} // obligation name -> guarded twin (known findings)
	preSolved := map[*Obligation]bool{}
	for _, id := range ids {
		fn := p.fnByID[id]
		if fn == nil {
			missing = append(missing, id)
			continue
		}
		vc := newFnVC(p, fn, p.cs.Funcs[id], id)
		vc.prop = *prop
		scanOnly := (!hasTag(vc.fc.Tags, *prop) && !(len(vc.fc.Tags) > 0 && (hasTag(strings.Fields(vc.fc.Options["safety-tags"]), *prop) || hasTag(strings.Fields(vc.fc.Options["callpre-tags"]), *prop)))) || *prop == "C19"
		for _, cl := range vc.fc.Ensures {
			if hasTag(cl.Tags, *prop) {
				scanOnly = false
			}
		}
		for _, ac := range vc.fc.AtCalls {
			if hasTag(ac.Cl.Tags, *prop) {
				scanOnly = false
			}
		}
		if !scanOnly {
			vc.generate()
		}
		vcs = append(vcs, vc)
		for _, o := range vc.preservesObligations() {
			if hasTag(o.Tags, *prop) {
				all = append(all, o)
				preSolved[o] = true
			}
		}
		if hasTag(vc.fc.Tags, *prop) {
			for _, o := range vc.markObligations() {
				if hasTag(o.Tags, *prop) {
					all = append(all, o)
					preSolved[o] = true
				}
			}
		}
		if *prop == "C19" {
			for _, o := range vc.taintObligations() {
				all = append(all, o)
				preSolved[o] = true
			}
		}
		if scanOnly {
			continue
		}
		if vc.failed != "" {
			// the whole function is outside the subset: one failed obligation stands for it
			o := &Obligation{Name: vc.shortName() + "/subset", Class: "subset", Func: vc.shortName(), Goal: "false", Tags: vc.fnTags(), Expect: "unsat", vc: vc}
			all = append(all, o)
			continue
		}
		for _, o := range vc.obls {
			if o.Class == "smoke" || hasTag(o.Tags, *prop) {
				if cls := p.cs.PropertyClasses[*prop]; len(cls) > 0 && o.Class != "smoke" && !hasTag(cls, o.Class) {
					continue
				}
				all = append(all, o)
			}
		}
		// guarded twins for known findings
		for i := range known.Findings {
			kf := &known.Findings[i]
			if kf.Property != *prop || kf.Status == "fixed" || kf.Witness == "" {
				continue
			}
			if !strings.HasPrefix(kf.Obligation, vc.shortName()+"/") {
				continue
			}
			gvc := newFnVC(p, fn, p.cs.Funcs[id], id)
			gvc.prop = *prop
			gvc.extraAssume = []string{"!(" + kf.Witness + ")"}
			gvc.generate()
			for _, o := range gvc.obls {
				if o.Name == kf.Obligation {
					guarded[o.Name] = o
				}
			}
		}
	}
	// untagged preserves clauses of functions that carry no property tag are checked by no
	// property of their own: they are obligations of every run that relied on them at a call site
	{
		var keys []string
		for k := range p.framesUsed {
			keys = append(keys, k)
		}
		sort.Strings(keys)
		have := map[string]bool{}
		for _, o := range all {
			have[o.Name] = true
		}
		for _, k := range keys {
			fc := p.framesUsed[k]
			fn := p.fnByID[k]
			if fn == nil || len(fc.Tags) > 0 {
				continue
			}
			svc := newFnVC(p, fn, fc, k)
			svc.prop = *prop
			added := false
			for _, o := range svc.preservesObligations() {
				if len(o.Tags) == 0 && !have[o.Name] {
					o.Tags = []string{*prop}
					all = append(all, o)
					preSolved[o] = true
					added = true
				}
			}
			if added {
				vcs = append(vcs, svc)
			}
		}
	}
	// module callees that were given the property's default frame contract: their preserves
	// clauses are obligations of this run too
	{
		var fns []*ssa.Function
		for fn := range p.synthUsed {
			fns = append(fns, fn)
		}
		sort.Slice(fns, func(i, j int) bool { return fns[i].String() < fns[j].String() })
		for _, fn := range fns {
			svc := newFnVC(p, fn, p.synthUsed[fn], p.contractID(fn))
			svc.prop = *prop
			for _, o := range svc.preservesObligations() {
				all = append(all, o)
				preSolved[o] = true
			}
			vcs = append(vcs, svc)
		}
	}
	// guarded package variables: every module function that touches one must be among the
	// functions verified in this run (their access sites carry the lock obligations)
	verified := map[*ssa.Function]bool{}
	for _, vc := range vcs {
		verified[vc.fn] = true
	}
	for _, key := range sortedKeys(p.cs.Guards) {
		gd := p.cs.Guards[key]
		if !hasTag(gd.Tags, *prop) {
			continue
		}
		sp := p.ssaPkgs[gd.Pkg]
		if sp == nil {
			continue
		}
		g, _ := sp.Members[gd.Global].(*ssa.Global)
		o := &Obligation{Name: sp.Pkg.Name() + "." + gd.Global + "/guarded/all-accesses-under-contract", Class: "frame-scan", Func: gd.Global, Tags: gd.Tags, Expect: "unsat", Src: "guarded " + gd.Global + " by " + gd.Mutex}
		o.Result = &SolveResult{Status: "unsat", Solver: "callgraph-scan"}
		if g == nil {
			o.Result = &SolveResult{Status: "error", Output: "no such package variable"}
		} else {
			var bad []string
			for fn := range p.allFns {
				if !inModule(fn) || fn.Synthetic == "package initializer" {
					continue
				}
				uses := false
				for _, b := range fn.Blocks {
					for _, ins := range b.Instrs {
						for _, op := range ins.Operands(nil) {
							if *op == g {
								uses = true
							}
						}
					}
				}
				if uses && !verified[fn] {
					bad = append(bad, fn.String())
				}
			}
			sort.Strings(bad)
			if len(bad) > 0 {
				o.Result = &SolveResult{Status: "sat", Solver: "callgraph-scan", Output: "accessed outside the verified set by: " + strings.Join(bad, ", ")}
			}
		}
		all = append(all, o)
		preSolved[o] = true
	}
	if *prop == "C19" {
		// completeness: every store into SchemaError.Reason of the module sits in a function that
		// is under a C19 contract (so a new reason site cannot escape the label obligations)
		verifiedFns := map[*ssa.Function]bool{}
		for _, vc := range vcs {
			verifiedFns[vc.fn] = true
		}
		var bad []string
		sites := 0
		for fn := range p.allFns {
			if !inModule(fn) {
				continue
			}
			for _, b := range fn.Blocks {
				for _, ins := range b.Instrs {
					st, ok := ins.(*ssa.Store)
					if !ok {
						continue
					}
					fa, ok := st.Addr.(*ssa.FieldAddr)
					if !ok {
						continue
					}
					stT := fa.X.Type().Underlying().(*types.Pointer).Elem()
					if n := namedOf(stT); n == nil || n.Obj().Name() != "SchemaError" {
						continue
					}
					if stT.Underlying().(*types.Struct).Field(fa.Field).Name() != "Reason" {
						continue
					}
					sites++
					if !verifiedFns[fn] {
						bad = append(bad, fn.String())
					}
				}
			}
		}
		o := &Obligation{Name: "openapi3.SchemaError.Reason/all-sites-under-contract", Class: "frame-scan", Func: "SchemaError.Reason", Tags: []string{"C19"}, Expect: "unsat", Src: fmt.Sprintf("%d stores into SchemaError.Reason in the module", sites)}
		o.Result = &SolveResult{Status: "unsat", Solver: "callgraph-scan"}
		sort.Strings(bad)
		if len(bad) > 0 {
			o.Result = &SolveResult{Status: "sat", Solver: "callgraph-scan", Output: "Reason is set outside the functions under a C19 contract: " + strings.Join(bad, ", ")}
		}
		all = append(all, o)
		preSolved[o] = true
	}
	// walk completeness: one obligation per method that must be reached from the root
	for _, wc := range p.cs.WalkComplete {
		if !hasTag(wc.Tags, *prop) {
			continue
		}
		root := p.fnByID[wc.Pkg+"::"+wc.Root]
		if root == nil {
			o := &Obligation{Name: "walk/" + wc.Root + "/root-exists", Class: "frame-scan", Tags: wc.Tags, Expect: "unsat", Result: &SolveResult{Status: "error", Output: "no such root function"}}
			all = append(all, o)
			preSolved[o] = true
			continue
		}
		reach := p.reachable(root)
		var names []string
		byName := map[string]*ssa.Function{}
		for fn := range p.allFns {
			if !inModule(fn) || fn.Name() != wc.Method || fn.Signature.Recv() == nil || fn.Synthetic != "" {
				continue
			}
			// document validators take a context first
			if fn.Signature.Params().Len() == 0 || fn.Signature.Params().At(0).Type().String() != "context.Context" {
				continue
			}
			id := p.contractID(fn)
			if !strings.HasPrefix(id, wc.Pkg+"::") {
				continue
			}
			key := id[len(wc.Pkg)+2:]
			if _, dup := byName[key]; dup {
				continue
			}
			byName[key] = fn
			names = append(names, key)
		}
		sort.Strings(names)
		for _, key := range names {
			fn := byName[key]
			o := &Obligation{Name: "walk/" + wc.Root + "/reaches/" + key, Class: "frame-scan", Func: key, Tags: wc.Tags, Expect: "unsat", Src: "walkcomplete " + wc.Root + " " + wc.Method, Pos: p.fset.Position(fn.Pos()).String()}
			o.Result = &SolveResult{Status: "unsat", Solver: "callgraph-scan"}
			if !reach[fn] {
				o.Result = &SolveResult{Status: "sat", Solver: "callgraph-scan", Output: key + " is not reachable from " + wc.Root + ": objects of this kind are never validated"}
			}
			all = append(all, o)
			preSolved[o] = true
		}
	}
	// field shapes relied on by reflection-based code
	for _, fs := range p.cs.FieldShapes {
		if !hasTag(fs.Tags, *prop) {
			continue
		}
		pk := p.byPath[fs.Pkg]
		if pk == nil {
			continue
		}
		scope := pk.Types.Scope()
		for _, tn := range scope.Names() {
			obj, ok := scope.Lookup(tn).(*types.TypeName)
			if !ok {
				continue
			}
			stt, ok := obj.Type().Underlying().(*types.Struct)
			if !ok || stt.NumFields() <= fs.Index || stt.Field(fs.Index).Name() != fs.Name {
				continue
			}
			f := stt.Field(fs.Index)
			got := types.TypeString(f.Type(), func(q *types.Package) string { return q.Name() })
			o := &Obligation{Name: fmt.Sprintf("fieldshape/%s[%d]/%s", fs.Name, fs.Index, tn), Class: "frame-scan", Func: tn, Tags: fs.Tags, Expect: "unsat", Src: fmt.Sprintf("fieldshape %d %s : %s", fs.Index, fs.Name, fs.Type), Pos: p.fset.Position(f.Pos()).String()}
			o.Result = &SolveResult{Status: "unsat", Solver: "types-scan"}
			if got != fs.Type && got != strings.ReplaceAll(fs.Type, "any", "interface{}") {
				o.Result = &SolveResult{Status: "sat", Solver: "types-scan", Output: tn + "." + fs.Name + " has type " + got + ", not " + fs.Type}
			}
			all = append(all, o)
			preSolved[o] = true
		}
	}
	// reference walks: the traversal reads every field that can hold a reference
	for _, rw := range p.cs.RefWalks {
		if !hasTag(rw.Tags, *prop) {
			continue
		}
		root := p.fnByID[rw.Pkg+"::"+rw.Root]
		pk := p.byPath[rw.Pkg]
		if root == nil || pk == nil {
			fmt.Fprintf(os.Stderr, "govc: refwalk root %s not found\n", rw.Root)
			os.Exit(2)
		}
		isRef := map[string]bool{}
		for _, t := range rw.RefTypes {
			isRef[t] = true
		}
		holdsRef := func(t types.Type) bool {
			for i := 0; i < 8; i++ {
				switch u := t.(type) {
				case *types.Pointer:
					t = u.Elem()
					continue
				case *types.Slice:
					t = u.Elem()
					continue
				case *types.Map:
					t = u.Elem()
					continue
				case *types.Named:
					if u.Obj().Pkg() != nil && u.Obj().Pkg().Path() == rw.Pkg && isRef[u.Obj().Name()] {
						return true
					}
					t = u.Underlying()
					if _, isStruct := t.(*types.Struct); isStruct {
						return false
					}
					continue
				case *types.Alias:
					t = types.Unalias(u)
					continue
				}
				break
			}
			return false
		}
		// fields read by module functions reachable from the root
		read := map[string]bool{}
		for fn := range p.reachable(root) {
			if !inModule(fn) {
				continue
			}
			for _, b := range fn.Blocks {
				for _, ins := range b.Instrs {
					var st types.Type
					var idx int
					switch x := ins.(type) {
					case *ssa.FieldAddr:
						st, idx = x.X.Type().Underlying().(*types.Pointer).Elem(), x.Field
					case *ssa.Field:
						st, idx = x.X.Type(), x.Field
					default:
						continue
					}
					if n := namedOf(st); n != nil {
						read[n.Obj().Name()+"."+st.Underlying().(*types.Struct).Field(idx).Name()] = true
					}
				}
			}
		}
		scope := pk.Types.Scope()
		for _, tn := range scope.Names() {
			obj, ok := scope.Lookup(tn).(*types.TypeName)
			if !ok || !obj.Exported() {
				continue
			}
			stt, ok := obj.Type().Underlying().(*types.Struct)
			if !ok {
				continue
			}
			for i := 0; i < stt.NumFields(); i++ {
				f := stt.Field(i)
				if !f.Exported() || !holdsRef(f.Type()) {
					continue
				}
				key := tn + "." + f.Name()
				o := &Obligation{Name: "refwalk/" + rw.Root + "/reads/" + key, Class: "frame-scan", Func: rw.Root, Tags: rw.Tags, Expect: "unsat", Src: "refwalk " + rw.Root, Pos: p.fset.Position(f.Pos()).String()}
				o.Result = &SolveResult{Status: "unsat", Solver: "callgraph-scan"}
				if !read[key] {
					o.Result = &SolveResult{Status: "sat", Solver: "callgraph-scan", Output: "no function reachable from " + rw.Root + " reads " + key + ": references stored there are never visited"}
				}
				all = append(all, o)
				preSolved[o] = true
			}
		}
	}
	// funnels: designated callees may only be called from the listed functions
	for _, oc := range p.cs.OnlyCalledBy {
		if !hasTag(oc.Tags, *prop) {
			continue
		}
		allowed := map[string]bool{}
		for _, c := range oc.Callers {
			allowed[c] = true
		}
		var bad []string
		matched := 0
		for fn := range p.allFns {
			if !inModule(fn) {
				continue
			}
			id := p.contractID(fn)
			if !strings.HasPrefix(id, oc.Pkg+"::") {
				continue // the funnel is a statement about the declaring package
			}
			key := id
			if k := strings.Index(id, "::"); k >= 0 {
				key = id[k+2:]
			}
			for _, b := range fn.Blocks {
				for _, ins := range b.Instrs {
					ci, ok := ins.(ssa.CallInstruction)
					if !ok {
						continue
					}
					c := ci.Common()
					hit := false
					if strings.HasPrefix(oc.Callee, "type:") {
						if c.StaticCallee() == nil && !c.IsInvoke() {
							if n := namedOf(c.Value.Type()); n != nil && n.Obj().Name() == oc.Callee[5:] {
								hit = true
							}
						}
						// a package variable of that type called directly (DefaultReadFromURI)
						if ld, ok := c.Value.(*ssa.UnOp); ok {
							if _, isG := ld.X.(*ssa.Global); isG {
								if n := namedOf(c.Value.Type()); n != nil && n.Obj().Name() == oc.Callee[5:] {
									hit = true
								}
							}
						}
					} else if sc := c.StaticCallee(); sc != nil {
						if sc.String() == oc.Callee {
							hit = true
						}
						if cid := p.contractID(sc); cid == oc.Pkg+"::"+oc.Callee {
							hit = true
						}
					}
					if hit {
						matched++
					}
					if hit && !allowed[key] {
						bad = append(bad, key+" ("+p.fset.Position(ins.Pos()).String()+")")
					}
				}
			}
		}
		o := &Obligation{Name: "funnel/" + oc.Callee + "/only-called-by-listed-functions", Class: "frame-scan", Func: oc.Callee, Tags: oc.Tags, Expect: "unsat", Src: fmt.Sprintf("onlycalledby %s : %s (%d call sites found)", oc.Callee, strings.Join(oc.Callers, ", "), matched)}
		o.Result = &SolveResult{Status: "unsat", Solver: "callgraph-scan"}
		sort.Strings(bad)
		if len(bad) > 0 {
			o.Result = &SolveResult{Status: "sat", Solver: "callgraph-scan", Output: "called outside the funnel: " + strings.Join(bad, "; ")}
		}
		all = append(all, o)
		preSolved[o] = true
	}
	// types all of whose methods must be under contract for this property (a method added later
	// without a contract would silently escape the argument that relies on "every method ...")
	for _, am := range p.cs.AllMethods {
		if !hasTag(am.Tags, *prop) {
			continue
		}
		sp := p.ssaPkgs[am.Pkg]
		if sp == nil {
			continue
		}
		tn, _ := sp.Pkg.Scope().Lookup(am.Type).(*types.TypeName)
		o := &Obligation{Name: sp.Pkg.Name() + "." + am.Type + "/all-methods-under-contract", Class: "frame-scan", Func: am.Type, Tags: am.Tags, Expect: "unsat", Src: "allmethods " + am.Type}
		o.Result = &SolveResult{Status: "unsat", Solver: "callgraph-scan"}
		if tn == nil {
			o.Result = &SolveResult{Status: "error", Output: "no such type"}
		} else {
			var missing []string
			ms := p.ssa.MethodSets.MethodSet(types.NewPointer(tn.Type()))
			for i := 0; i < ms.Len(); i++ {
				fn := p.ssa.MethodValue(ms.At(i))
				if fn == nil || !inModule(fn) {
					continue
				}
				if fn.Synthetic != "" {
					// promoted through an embedded field: look at the declared method
					continue
				}
				fc := p.contractOf(fn)
				if fc == nil || !hasTag(fc.Tags, *prop) {
					missing = append(missing, fn.Name())
				}
			}
			sort.Strings(missing)
			if len(missing) > 0 {
				o.Result = &SolveResult{Status: "sat", Solver: "callgraph-scan", Output: "methods without a contract for " + *prop + ": " + strings.Join(missing, ", ")}
			}
		}
		all = append(all, o)
		preSolved[o] = true
	}
	// `global nonnil` variables relied upon by the VCs of this run
	nonNilSeen := map[*ssa.Global]bool{}
	for _, vc := range vcs {
		for g := range vc.usedNonNil {
			if nonNilSeen[g] {
				continue
			}
			nonNilSeen[g] = true
			o := &Obligation{Name: g.Pkg.Pkg.Name() + "." + g.Name() + "/global/initialised-once-nonnil", Class: "frame-scan", Func: g.Name(), Tags: []string{*prop}, Expect: "unsat", Src: "global nonnil " + g.Name()}
			if why := p.checkNonNilGlobal(g); why != "" {
				o.Result = &SolveResult{Status: "sat", Solver: "callgraph-scan", Output: why}
			} else {
				o.Result = &SolveResult{Status: "unsat", Solver: "callgraph-scan"}
			}
			all = append(all, o)
			preSolved[o] = true
		}
	}
	// registries declared `global mapvalues-nonnil`: every module site that stores into them
	// stores a parameter that the enclosing function's contract requires to be non-nil
	mapSeen := map[*ssa.Global]bool{}
	for _, vc := range vcs {
		for g := range vc.usedMapNonNil {
			if mapSeen[g] {
				continue
			}
			mapSeen[g] = true
			o := &Obligation{Name: g.Pkg.Pkg.Name() + "." + g.Name() + "/global/stored-values-nonnil", Class: "frame-scan", Func: g.Name(), Tags: []string{*prop}, Expect: "unsat", Src: "global mapvalues-nonnil " + g.Name()}
			o.Result = &SolveResult{Status: "unsat", Solver: "callgraph-scan"}
			var bad []string
			for fn := range p.allFns {
				if !inModule(fn) {
					continue
				}
				for _, b := range fn.Blocks {
					for _, ins := range b.Instrs {
						mu, ok := ins.(*ssa.MapUpdate)
						if !ok || globalRoot(mu.Map) != g {
							continue
						}
						okSite := false
						if prm, isParam := mu.Value.(*ssa.Parameter); isParam {
							if fc := p.contractOf(fn); fc != nil {
								for _, cl := range fc.Requires {
									if strings.Contains(strings.ReplaceAll(cl.Src, " ", ""), prm.Name()+"!=nil") {
										okSite = true
									}
								}
							}
						}
						if !okSite {
							bad = append(bad, fn.String())
						}
					}
				}
			}
			sort.Strings(bad)
			if len(bad) > 0 {
				o.Result = &SolveResult{Status: "sat", Solver: "callgraph-scan", Output: "stores a value not required to be non-nil: " + strings.Join(bad, ", ")}
			}
			all = append(all, o)
			preSolved[o] = true
		}
	}
	var solveList []*Obligation
	for _, o := range all {
		if !preSolved[o] {
			solveList = append(solveList, o)
		}
	}
	for _, o := range guarded {
		solveList = append(solveList, o)
	}
	solveAll(solveList, *workers, budget, false)
	// An undecided obligation may be a casualty of machine load (a dozen workers racing three
	// solvers each): the undecided ones are tried once more, two at a time, with three
	// times the budget for the solver race and for the cheap first attempts.
	// A refuted obligation (sat) is never retried.
	var retry []*Obligation
	for _, o := range solveList {
		if o.Expect == "unsat" && o.Result != nil && (o.Result.Status == "unknown" || o.Result.Status == "timeout") {
			retry = append(retry, o)
		}
	}
	if n := len(retry); n > 0 && n <= 16 {
		for _, o := range retry {
			o.Result = nil
		}
		rb := budget * 3
		stageScale = 3
		solveAll(retry, 2, rb, false)
		stageScale = 1
	}

	// thorough: cross-check every discharged obligation with the whole portfolio
	disagreements := 0
	if *tier == "thorough" {
		var again []*Obligation
		for _, o := range all {
			if o.Result != nil && o.Result.Status == o.Expect && !preSolved[o] {
				c := *o
				again = append(again, &c)
			}
		}
		solveAll(again, *workers, budget, true)
		for _, o := range again {
			if o.Result.Status == "error" && strings.Contains(o.Result.Output, "disagreement") {
				disagreements++
				fmt.Printf("SOLVER-DISAGREEMENT %s %s\n", o.Name, o.Result.Output)
			}
		}
	}

	// report
	violations := 0
	smokeByFn := map[string]*smokeStat{}
	replaysTried := 0
	nObl, nDis, nSmoke, nSmokeOK := 0, 0, 0, 0
	var evs []evObl
	bySolver := map[string]int{}
	var solverMs int64
	replayDir := filepath.Join(*verif, "replays", *prop)
	if *replayDirFlag != "" {
		replayDir = filepath.Join(*replayDirFlag, *prop)
	}
	if *only == "" {
		os.RemoveAll(replayDir)
	}
	var knownLines []string
	trusted := map[string]bool{}
	assumptions := map[string]bool{}
	unmodelled := map[string]bool{}
	var fucs []string
	for _, n := range p.genNotes {
		assumptions[n] = true
	}
	if len(p.generated) > 0 {
		nl := 0
		for _, g := range p.generated {
			nl += strings.Count(g, "\n")
		}
		assumptions[fmt.Sprintf("%d contract clauses were generated on this run from the struct tags of the types named by `generate` directives (the specification is the tag set, not the marshaller)", nl)] = true
	}
	for _, vc := range vcs {
		fucs = append(fucs, vc.shortName())
		for k := range vc.enc.usedTrusted {
			trusted[k] = true
		}
		for k := range vc.enc.usedAssumptions {
			assumptions[k] = true
		}
		for k := range vc.unmodelled {
			if *verbose {
				fmt.Printf("  unmodelled call: %s -> %s\n", vc.shortName(), k)
			}
			unmodelled[vc.shortName()+" -> "+k] = true
		}
		for _, w := range vc.warnings {
			assumptions[w] = true
		}
	}
	for _, id := range missing {
		violations++
		path := writeReplay(replayDir, &Obligation{Name: id + "/missing-function", Class: "subset", Result: &SolveResult{Status: "error", Output: "function under contract no longer exists"}}, *prop)
		fmt.Printf("VIOLATION property=%s replay=%s no-failing-input-found\n", *prop, path)
	}
	for _, o := range all {
		r := o.Result
		if o.Class == "smoke" {
			nSmoke++
			if r.Status == "sat" {
				nSmokeOK++
			}
			st := smokeByFn[o.Func]
			if st == nil {
				st = &smokeStat{}
				smokeByFn[o.Func] = st
			}
			st.total++
			if r.Status == "unsat" {
				st.unreachable = append(st.unreachable, o)
			}
			continue
		}
		nObl++
		ok := r.Status == "unsat"
		ev := evObl{Name: o.Name, Class: o.Class, Status: r.Status, Solver: r.Solver, Ms: r.Ms, Bytes: r.SMTBytes, Pos: o.Pos, Src: o.Src}
		if ok {
			nDis++
			bySolver[r.Solver]++
			solverMs += r.Ms
			evs = append(evs, ev)
			continue
		}
		// failed: known finding?
		if g, isKnown := guarded[o.Name]; isKnown && g.Result != nil && g.Result.Status == "unsat" {
			var kf *KnownFinding
			for i := range known.Findings {
				if known.Findings[i].Obligation == o.Name && known.Findings[i].Property == *prop {
					kf = &known.Findings[i]
				}
			}
			knownLines = append(knownLines, fmt.Sprintf("KNOWN-FINDING: property=%s %s %s", *prop, o.Name, kf.Input))
			ev.Status = "known-finding"
			evs = append(evs, ev)
			nDis++ // discharged under the negated witness
			bySolver[g.Result.Solver]++
			continue
		}
		if kf := siteFinding(known, *prop, o.Name); kf != nil {
			knownLines = append(knownLines, fmt.Sprintf("KNOWN-FINDING: property=%s %s %s", *prop, o.Name, kf.Input))
			ev.Status = "known-finding"
			evs = append(evs, ev)
			nObl-- // per-site findings are not counted as obligations of the proof
			continue
		}
		evs = append(evs, ev)
		violations++
		path := writeReplay(replayDir, o, *prop)
		suffix := ""
		confirmed := false
		if (r.Status == "sat" || r.CandidateQF) && replaysTried < 2 {
			replaysTried++
			confirmed = tryReplay(p, o, path)
		}
		if !confirmed {
			suffix = " no-failing-input-found"
		}
		fmt.Printf("FAILED %s [%s] %s %s\n", o.Name, r.Status, o.Pos, firstLine(r.Output))
		fmt.Printf("VIOLATION property=%s replay=%s%s\n", *prop, path, suffix)
	}
	// vacuity: a function none of whose return points is reachable under its contract's
	// assumptions proves nothing
	var unreachableNotes []string
	for fn, st := range smokeByFn {
		if st.total > 0 && len(st.unreachable) == st.total {
			violations++
			path := writeReplay(replayDir, st.unreachable[0], *prop)
			fmt.Printf("VACUOUS %s: no return point is reachable under the contract's assumptions\n", fn)
			fmt.Printf("VIOLATION property=%s replay=%s no-failing-input-found\n", *prop, path)
		}
		for _, o := range st.unreachable {
			unreachableNotes = append(unreachableNotes, o.Name)
		}
	}
	sort.Strings(unreachableNotes)
	for _, l := range knownLines {
		fmt.Println(l)
	}
	if nObl == 0 {
		fmt.Printf("govc: no obligations generated for %s — vacuous run\n", *prop)
		violations++
	}
	wall := time.Since(t0).Seconds()
	if !*noEvidence {
		writeEvidence(*verif, *prop, *tier, seed, nObl, nDis, nSmoke, nSmokeOK, evs, bySolver, solverMs, fucs, trusted, assumptions, unmodelled, violations, wall, p, disagreements, unreachableNotes)
	}
	if *verbose {
		for _, e := range evs {
			fmt.Printf("  %-12s %-8s %6dms %s\n", e.Status, e.Solver, e.Ms, e.Name)
		}
	}
	fmt.Printf("govc: property=%s tier=%s functions=%d obligations=%d discharged=%d smoke=%d/%d violations=%d wall=%.1fs (load %.1fs)\n",
		*prop, *tier, len(vcs), nObl, nDis, nSmokeOK, nSmoke, violations, wall, p.loadSecs)
	if violations > 0 || disagreements > 0 {
		return 1
	}
	return 0
}

// siteFinding: a finding recorded for a per-site obligation (no witness): the obligation
// name is the site.
func siteFinding(k *KnownFile, prop, name string) *KnownFinding {
	for i := range k.Findings {
		f := &k.Findings[i]
		if f.Property == prop && f.Obligation == name && f.Witness == "" && f.Status != "fixed" {
			return f
		}
	}
	return nil
}

func firstLine(s string) string {
	s = strings.TrimSpace(s)
	if k := strings.Index(s, "\n"); k >= 0 {
		s = s[:k]
	}
	if len(s) > 200 {
		s = s[:200]
	}
	return s
}

type replayFile struct {
	Property   string `json:"property"`
	Obligation string `json:"obligation"`
	Class      string `json:"class"`
	Function   string `json:"function"`
	Pos        string `json:"pos"`
	Source     string `json:"contract_clause,omitempty"`
	Status     string `json:"solver_status"`
	Solver     string `json:"solver"`
	Tried      []string `json:"solvers_tried"`
	Output     string `json:"solver_output"`
	Inputs     map[string]string `json:"model_inputs,omitempty"`
	Replayed   string `json:"replayed,omitempty"`
	ReplayTest string `json:"replay_test,omitempty"`
	ReplayOut  string `json:"replay_output,omitempty"`
	SMT        string `json:"smt_query,omitempty"`
}

func writeReplay(dir string, o *Obligation, prop string) string {
	os.MkdirAll(dir, 0o755)
	path := filepath.Join(dir, fmt.Sprintf("%08x.json", hashStr(o.Name)))
	rf := replayFile{Property: prop, Obligation: o.Name, Class: o.Class, Function: o.Func, Pos: o.Pos, Source: o.Src}
	if o.Result != nil {
		rf.Status, rf.Solver, rf.Tried = o.Result.Status, o.Result.Solver, o.Result.Tried
		out := o.Result.Output
		if len(out) > 20000 {
			out = out[:20000] + "\n...(truncated)"
		}
		rf.Output = out
	}
	if o.vc != nil && o.vc.failed == "" && o.Goal != "" {
		q := o.smt(true)
		if len(q) < 400000 {
			rf.SMT = q
		}
	}
	data, _ := json.MarshalIndent(rf, "", " ")
	os.WriteFile(path, data, 0o644)
	return path
}

func writeEvidence(verif, prop, tier string, seed, nObl, nDis, nSmoke, nSmokeOK int, evs []evObl, bySolver map[string]int, solverMs int64,
	fucs []string, trusted, assumptions, unmodelled map[string]bool, violations int, wall float64, p *Prog, disagreements int, unreachable []string) {
	os.MkdirAll(filepath.Join(verif, "evidence"), 0o755)
	var samples []evObl
	for i, e := range evs {
		if i < 12 {
			samples = append(samples, e)
		}
	}
	byClass := map[string]int{}
	var slow []evObl
	for _, e := range evs {
		byClass[e.Class]++
		if e.Ms > 1000 {
			slow = append(slow, e)
		}
	}
	tb := sortedKeys(trusted)
	tb = append(tb, "go/types + x/tools go/ssa v0.29.0 (front end)", "SMT solvers z3 5.1.0 / z3 4.8.12 / cvc5 1.0 (each obligation accepted by at least one)")
	as := []string{
		"partial correctness only: no termination, no resource bounds (A4)",
		"integers are machine integers rendered in LIA with explicit wrap-around; strings are byte sequences",
		"user callbacks do not mutate the document/loader/options (A3); no concurrent mutation (A5)",
		"escaping field addresses do not alias cells reached through ordinary pointers",
	}
	as = append(as, sortedKeys(assumptions)...)
	cov := map[string]any{
		"obligations":  nObl,
		"discharged":   nDis,
		"checker_cmd":  fmt.Sprintf("/verif/check %s %s", prop, tier),
		"trusted_base": tb,
		"samples":      samples,
		"functions_under_contract": fucs,
		"obligations_by_class":     byClass,
		"discharged_by_solver":     bySolver,
		"solver_ms_total":          solverMs,
		"vacuity_checks":           map[string]any{"return_points": nSmoke, "shown_reachable_by_model": nSmokeOK, "unreachable_under_assumptions": unreachable, "rule": "a function none of whose return points is reachable fails the run; individually unreachable returns (excluded by a scope assumption) are listed"},
		"unmodelled_calls":         sortedKeys(unmodelled),
		"slow_obligations":         slow,
		"contract_files":           p.cs.Files,
		"solver_disagreements":     disagreements,
		"what_the_extraction_drops": "DebugRef, positions, termination, memory exhaustion; map iteration order is nondeterministic; calls leaving the contract set use their (assumed) contract; see DESIGN.md 2.2",
	}
	if tier == "thorough" {
		cov["all_obligations"] = evs
	}
	level := "proof"
	if pl, ok := p.cs.PropertyLevel[prop]; ok {
		level = pl[0]
		cov["explanation"] = pl[1]
		cov["evaluations"] = nObl
		cov["distinct_nontrivial"] = nObl
	} else if len(fucs) == 0 {
		// no function body was verified: every obligation of this run is a structural scan
		level = "other"
		cov["explanation"] = "every obligation of this property is discharged by a scan of the SSA / call graph of the real code, not by an SMT proof"
		cov["evaluations"] = nObl
		cov["distinct_nontrivial"] = nObl
		cov["note"] = "every obligation of this property is discharged by a scan of the SSA / call graph of the real code (reference-walk completeness), not by an SMT proof"
	}
	ev := map[string]any{
		"property_id": prop,
		"tier":        tier,
		"seed":        seed,
		"level":       level,
		"coverage":    cov,
		"assumptions": as,
		"wall_s":      wall,
		"violations":  violations,
	}
	data, _ := json.MarshalIndent(ev, "", " ")
	os.WriteFile(filepath.Join(verif, "evidence", prop+".json"), data, 0o644)
}

func cmdReplay(args []string) int {
	if len(args) < 1 {
		fmt.Fprintln(os.Stderr, "replay: file required")
		return 2
	}
	data, err := os.ReadFile(args[0])
	if err != nil {
		fmt.Fprintln(os.Stderr, err)
		return 2
	}
	var rf replayFile
	if err := json.Unmarshal(data, &rf); err != nil {
		fmt.Fprintln(os.Stderr, err)
		return 2
	}
	fmt.Printf("obligation: %s\nclass: %s\nfunction: %s\nposition: %s\nclause: %s\nsolver: %s -> %s\n", rf.Obligation, rf.Class, rf.Function, rf.Pos, rf.Source, rf.Solver, rf.Status)
	if len(rf.Inputs) > 0 {
		fmt.Println("model inputs:")
		for _, k := range sortedKeys(rf.Inputs) {
			fmt.Printf("  %s = %s\n", k, rf.Inputs[k])
		}
	}
	if rf.ReplayTest != "" {
		return runReplayTest(&rf)
	}
	fmt.Println("no executable replay for this obligation (no-failing-input-found); solver output:")
	fmt.Println(firstLine(rf.Output))
	return 1
}

var _ = ssa.NaiveForm
