package main

// Verification-condition generation over go/ssa: state, obligations, block scheduling,
// loop cutting (DESIGN.md 2.4, appendix D).

import (
	"fmt"
	"go/token"
	"go/types"
	"sort"
	"strings"

	"golang.org/x/tools/go/ssa"
)

type vkind int

const (
	vTerm vkind = iota
	vLval
	vTuple
	vNone
)

type Val struct {
	k   vkind
	tv  TV
	lv  *Lval
	tup []Val
}

// Lval is a statically known address: a heap component and a reference (plus an index
// for slice/array elements).
type Lval struct {
	comp string
	sort string // sort of the stored value
	ref  string
	idx  string // "" for fields and cells
	ty   types.Type
}

// State: the current version of every heap component. Components never written since the
// last havoc are implicit: their name is derived from the epoch of their class. Classes:
// "ghost", "pkg:<module package>" (components of that package's types), "other". A contract's
// `modifies *` bumps "other" and every package class it does not declare preserved.
type State struct {
	ep   map[string]int
	comp map[string]string
	// base: for each component, the version as of the last write that may have touched an
	// object existing at function entry ("old region"). Writes proved to hit objects
	// allocated in this activation leave it alone; heap-dependent spec symbols applied to
	// old-region arguments are named after it, so facts about the pre-existing heap
	// survive work on fresh objects.
	base map[string]string
}

func isGhostComp(c string) bool { return strings.HasPrefix(c, "Ghost$") }

var modulePkgNames = []string{"openapi3filter", "openapi3gen", "openapi2conv", "openapi3", "openapi2", "gorillamux", "pathpattern", "routers", "legacy"}

// constComps: package variables declared `global nonnil` (assigned once, in init): no havoc
// ever changes them.
var constComps = map[string]bool{}

func compClass(c string) string {
	if isGhostComp(c) {
		return "ghost"
	}
	if constComps[c] {
		return "const"
	}
	if c == "alloc" {
		return "other"
	}
	if strings.HasPrefix(c, "Seen$") || strings.HasPrefix(c, "Pos$") {
		return "local" // iterator state of this activation: no callee can reach it
	}
	for t, cl := range classOverride {
		if strings.Contains(c, t+"$") || strings.HasSuffix(c, t) || strings.Contains(c, t+".R") {
			return cl
		}
	}
	for _, n := range modulePkgNames {
		if strings.Contains(c, n+".") {
			return "pkg:" + n
		}
	}
	return "other"
}

func (s *State) epochOf(c string) int { return s.ep[compClass(c)] }

func (s *State) sameEpochs(o *State) bool {
	for k, v := range s.ep {
		if o.ep[k] != v {
			return false
		}
	}
	for k, v := range o.ep {
		if s.ep[k] != v {
			return false
		}
	}
	return true
}

func (s *State) clone() *State {
	n := &State{ep: make(map[string]int, len(s.ep)), comp: make(map[string]string, len(s.comp)), base: make(map[string]string, len(s.base))}
	for k, v := range s.ep {
		n.ep[k] = v
	}
	for k, v := range s.base {
		n.base[k] = v
	}
	for k, v := range s.comp {
		n.comp[k] = v
	}
	return n
}

type Obligation struct {
	Name    string
	Class   string // pre, post, inv-entry, inv-preserved, call-pre, safety, frame, unreachable, lemma, smoke
	Func    string
	Goal    string
	Prefix  int // number of stream lines assumed
	Tags    []string
	Pos     string
	Expect  string // "unsat" normally; "sat" for smoke (must-fail) checks
	Detail  string
	Src     string
	vc      *FnVC
	Result  *SolveResult
	Known   *KnownFinding
	NotClaimed string
	PartExpr Expr // the (part of the) contract clause this obligation checks, for replay
	Batch    string // post-conditions checked at one return point may be discharged by one query
	probe    bool   // a batch query: one attempt, no candidate search
}

type FnVC struct {
	gaOrder []string // package-level variables whose address was taken in this function
	slice *sliceIndex
	stores map[string]storeInfo
	nMapUpdates int
	prog     *Prog
	enc      *Enc
	fn       *ssa.Function
	fc       *FuncContract
	id       string
	stream   []string
	obls     []*Obligation
	vals     map[ssa.Value]Val
	reach    map[*ssa.BasicBlock]string
	out      map[*ssa.BasicBlock]*State
	compSort map[string]string
	entry    *State
	params   map[string]Val
	freshRef map[string]bool
	modset   []modLoc // evaluated in the entry state
	modAll   bool
	loops    map[*ssa.BasicBlock]*loopInfo // by header
	loopOrd  []*loopInfo
	backEdge map[[2]*ssa.BasicBlock]bool
	epochCtr int
	oblNames map[string]int
	callCtr  int
	failed   string // non-empty: function is outside the subset (reason)
	warnings []string
	rangeSeen map[*ssa.Range]string // ghost component for range-over-map
	curBlock *ssa.BasicBlock
	curInstr ssa.Instruction
	deferred []*ssa.Defer
	pkg      *types.Package
	extraAssume []string // known-finding guards: assumed at entry
	unmodelled map[string]bool
	constCapture map[ssa.Value]TV
	prop     string // the property being checked: clauses tagged for other properties only are ignored
	privCells []privCell // local variable cells no callee can write (see privateCell)
	usesSliceTag bool
	compValType map[string]types.Type
	axiomDone map[string]bool
	nonNilAt map[string][]*ssa.BasicBlock
	nonNilGlobals []string
	usedNonNil map[*ssa.Global]bool
	usedMapNonNil map[*ssa.Global]bool
	useKeys  bool // the contract speaks about keys(xs): emit the element-set facts
	faComps  map[string]faInfo // field components whose address escaped as a pointer term
	faOrder  []string
	keyTerms map[string][]string // key sort -> terms used as map keys (for model projection)
	nSmoke   int
	pendingVars map[string]Val // extra bindings for the next applyContract (captured variables, field holder)
}

type privCell struct {
	ref, comp string
	caps      []ssa.Instruction // non-nil: private only until one of these closure creations has run
}

type faInfo struct {
	sort string
	kind int
}

type modLoc struct {
	comp string
	ref  string // "" = whole component
}

type loopInfo struct {
	nonFresh map[string]bool // components the loop body may write at pre-existing objects
	header  *ssa.BasicBlock
	body    map[*ssa.BasicBlock]bool
	ordinal int
	spec    *LoopSpec
}

func newFnVC(p *Prog, fn *ssa.Function, fc *FuncContract, id string) *FnVC {
	vc := &FnVC{prog: p, enc: newEnc(p), fn: fn, fc: fc, id: id, nMapUpdates: -1,
		vals: map[ssa.Value]Val{}, reach: map[*ssa.BasicBlock]string{}, out: map[*ssa.BasicBlock]*State{},
		compSort: map[string]string{}, params: map[string]Val{}, freshRef: map[string]bool{},
		loops: map[*ssa.BasicBlock]*loopInfo{}, backEdge: map[[2]*ssa.BasicBlock]bool{}, oblNames: map[string]int{},
		rangeSeen: map[*ssa.Range]string{}, unmodelled: map[string]bool{}, constCapture: map[ssa.Value]TV{}, keyTerms: map[string][]string{}, faComps: map[string]faInfo{}, usedNonNil: map[*ssa.Global]bool{}, usedMapNonNil: map[*ssa.Global]bool{}, nonNilAt: map[string][]*ssa.BasicBlock{}, axiomDone: map[string]bool{}, compValType: map[string]types.Type{}}
	if fn.Pkg != nil {
		vc.pkg = fn.Pkg.Pkg
	} else if fn.Parent() != nil && fn.Parent().Pkg != nil {
		vc.pkg = fn.Parent().Pkg.Pkg
	} else if o := fn.Origin(); o != nil && o.Pkg != nil {
		vc.pkg = o.Pkg.Pkg
	}
	vc.entry = &State{ep: map[string]int{}, comp: map[string]string{}, base: map[string]string{}}
	if fc != nil {
		for _, cls := range [][]*Clause{fc.Requires, fc.Ensures} {
			for _, cl := range cls {
				if strings.Contains(cl.Src, "keys(") || strings.Contains(cl.Src, "keysPrefix(") {
					vc.useKeys = true
				}
			}
		}
		for _, ls := range fc.Loops {
			for _, cl := range ls.Invariants {
				if strings.Contains(cl.Src, "keys(") || strings.Contains(cl.Src, "keysPrefix(") {
					vc.useKeys = true
				}
			}
		}
	}
	return vc
}

func (vc *FnVC) emit(line string) { vc.stream = append(vc.stream, "(assert "+line+")") }

func (vc *FnVC) assume(cond string) {
	if cond == "true" || cond == "" {
		return
	}
	r := "true"
	if vc.curBlock != nil {
		r = vc.reach[vc.curBlock]
	}
	if r == "true" || r == "" {
		vc.emit(cond)
	} else {
		vc.emit(implies(r, cond))
	}
}

func (vc *FnVC) shortName() string {
	id := vc.id
	if k := strings.Index(id, "::"); k >= 0 {
		pk := id[:k]
		if j := strings.LastIndex(pk, "/"); j >= 0 {
			pk = pk[j+1:]
		}
		return pk + "." + id[k+2:]
	}
	return id
}

func (vc *FnVC) posOf(p token.Pos) string {
	if !p.IsValid() {
		return ""
	}
	ps := vc.prog.fset.Position(p)
	f := ps.Filename
	if strings.HasPrefix(f, vc.prog.repo+"/") {
		f = f[len(vc.prog.repo)+1:]
	}
	return fmt.Sprintf("%s:%d", f, ps.Line)
}

// oblige records a proof obligation (under the current block's reachability) and then
// assumes it.
func (vc *FnVC) oblige(class, detail, goal string, tags []string, src string) *Obligation {
	base := vc.shortName() + "/" + class
	if detail != "" {
		base += "/" + detail
	}
	name := base
	vc.oblNames[base]++
	if n := vc.oblNames[base]; n > 1 {
		name = fmt.Sprintf("%s#%d", base, n)
	}
	r := "true"
	if vc.curBlock != nil {
		r = vc.reach[vc.curBlock]
	}
	g := goal
	if r != "true" && r != "" {
		g = implies(r, goal)
	}
	pos := ""
	if vc.curInstr != nil {
		pos = vc.posOf(vc.curInstr.Pos())
	}
	o := &Obligation{Name: name, Class: class, Func: vc.shortName(), Goal: g, Prefix: len(vc.stream), Tags: tags, Pos: pos, Expect: "unsat", Detail: detail, Src: src, vc: vc}
	vc.obls = append(vc.obls, o)
	if class == "post" && vc.curBlock != nil {
		o.Batch = fmt.Sprintf("%p/b%d", vc, vc.curBlock.Index)
	}
	if class != "post" {
		vc.emit(g)
	}
	return o
}

// smoke records a must-fail check: "this point is reachable under the assumptions so far".
func (vc *FnVC) smoke(detail string) {
	r := "true"
	if vc.curBlock != nil {
		r = vc.reach[vc.curBlock]
	}
	name := vc.shortName() + "/smoke/" + detail
	o := &Obligation{Name: name, Class: "smoke", Func: vc.shortName(), Goal: not(r), Prefix: len(vc.stream), Expect: "sat", Detail: detail, vc: vc}
	vc.obls = append(vc.obls, o)
	vc.nSmoke++
}

// ---- components ----

func (vc *FnVC) compInit(st *State, comp string) string {
	sort, ok := vc.compSort[comp]
	if !ok {
		panic("internal: component " + comp + " has no sort")
	}
	name := fmt.Sprintf("%s!e%d", comp, st.epochOf(comp))
	if !vc.enc.declared[name] {
		vc.enc.declConst(name, sort)
		if st.epochOf(comp) == 0 {
			vc.closureAxiom(comp, name)
		}
	}
	return name
}

// closureAxiom: the heap at function entry is closed - an object that exists at entry only
// refers to objects that exist at entry (references stored in it are <= the entry allocation
// counter; boxed scalars are <= 0 by construction of the box functions).
func (vc *FnVC) closureAxiom(comp, name string) {
	if strings.HasPrefix(comp, "MH$") {
		// cardinality: a map with a key is not empty (entry heap)
		_, inner := arrayParts(vc.compSort[comp])
		ks, _ := arrayParts(inner)
		ml := mlOf(comp)
		vc.regComp(ml, arraySort(sInt, sInt))
		vc.enc.declConst(ml+"!e0", arraySort(sInt, sInt))
		vc.enc.header = append(vc.enc.header, "(assert (forall ((r Int) (k "+ks+")) (! (=> (select (select "+name+" r) k) (> (select "+ml+"!e0 r) 0)) :pattern ((select (select "+name+" r) k)))))")
		return
	}
	t := vc.compValType[comp]
	if t == nil || comp == "alloc" {
		return
	}
	a0 := "alloc!e0"
	vc.enc.declConst(a0, sInt)
	closed := func(v string) string {
		switch t.Underlying().(type) {
		case *types.Pointer, *types.Map, *types.Signature, *types.Chan:
			return "(<= " + v + " " + a0 + ")"
		case *types.Slice:
			return "(<= (sl-arr " + v + ") " + a0 + ")"
		case *types.Interface:
			return "(<= (if-data " + v + ") " + a0 + ")"
		}
		return ""
	}
	sort := vc.compSort[comp]
	switch {
	case strings.HasPrefix(comp, "F$") || strings.HasPrefix(comp, "Cell$"):
		if c := closed("(select " + name + " r)"); c != "" {
			vc.enc.header = append(vc.enc.header, "(assert (forall ((r Int)) (! (=> (<= r "+a0+") "+c+") :pattern ((select "+name+" r)))))")
		}
	case strings.HasPrefix(comp, "Elem$"):
		if c := closed("(select (select " + name + " r) i)"); c != "" {
			vc.enc.header = append(vc.enc.header, "(assert (forall ((r Int) (i Int)) (! (=> (<= r "+a0+") "+c+") :pattern ((select (select "+name+" r) i)))))")
		}
	case strings.HasPrefix(comp, "MV$"):
		_, inner := arrayParts(sort)
		ks, _ := arrayParts(inner)
		if c := closed("(select (select " + name + " r) k)"); c != "" {
			vc.enc.header = append(vc.enc.header, "(assert (forall ((r Int) (k "+ks+")) (! (=> (<= r "+a0+") "+c+") :pattern ((select (select "+name+" r) k)))))")
		}
	}
}

func (vc *FnVC) regComp(comp, sort string) {
	if old, ok := vc.compSort[comp]; ok {
		if old != sort {
			panic(fmt.Sprintf("internal: component %s sort clash %s vs %s", comp, old, sort))
		}
		return
	}
	vc.compSort[comp] = sort
}

func (vc *FnVC) cur(st *State, comp string) string {
	if v, ok := st.comp[comp]; ok {
		return v
	}
	return vc.compInit(st, comp)
}

// storeInfo: a component version known to equal `base` except at the listed references (it was
// obtained from base by stores at those references only). Lets a merge define the joined version
// by stores over the common base instead of equalities between whole arrays.
type storeInfo struct {
	base string
	refs []string
}

// noteStore records the provenance of version n when term is `(store <prev> <ref> <val>)`.
func (vc *FnVC) noteStore(n, prev, term string) {
	pfx := "(store " + prev + " "
	if !strings.HasPrefix(term, pfx) {
		return
	}
	rest := term[len(pfx):]
	ref := firstSexp(rest)
	if ref == "" {
		return
	}
	if vc.stores == nil {
		vc.stores = map[string]storeInfo{}
	}
	info := storeInfo{base: prev}
	if pi, ok := vc.stores[prev]; ok {
		info = storeInfo{base: pi.base, refs: append([]string(nil), pi.refs...)}
	}
	for _, r := range info.refs {
		if r == ref {
			vc.stores[n] = info
			return
		}
	}
	info.refs = append(info.refs, ref)
	vc.stores[n] = info
}

// firstSexp returns the first balanced s-expression (or atom) of s.
func firstSexp(s string) string {
	if s == "" {
		return ""
	}
	if s[0] != '(' {
		if s[0] == '"' {
			return ""
		}
		k := strings.IndexAny(s, " )")
		if k < 0 {
			return s
		}
		return s[:k]
	}
	depth := 0
	inStr := false
	for i := 0; i < len(s); i++ {
		c := s[i]
		if inStr {
			if c == '"' {
				inStr = false
			}
			continue
		}
		switch c {
		case '"':
			inStr = true
		case '(':
			depth++
		case ')':
			depth--
			if depth == 0 {
				return s[:i+1]
			}
		}
	}
	return ""
}

func (vc *FnVC) setComp(st *State, comp, term string) {
	// name the new version
	prev := st.comp[comp]
	n := vc.enc.freshConst(comp, vc.compSort[comp])
	vc.emit(eq(n, term))
	if prev != "" {
		vc.noteStore(n, prev, term)
	}
	st.comp[comp] = n
	st.base[comp] = n
}

// setCompFresh: a write known to hit an object allocated in this activation.
func (vc *FnVC) setCompFresh(st *State, comp, term string) {
	b := vc.curBase(st, comp)
	prev := st.comp[comp]
	n := vc.enc.freshConst(comp, vc.compSort[comp])
	vc.emit(eq(n, term))
	if prev != "" {
		vc.noteStore(n, prev, term)
	}
	st.comp[comp] = n
	st.base[comp] = b
}

func (vc *FnVC) setCompF(st *State, comp, term string, fresh bool) {
	if fresh {
		vc.setCompFresh(st, comp, term)
	} else {
		vc.setComp(st, comp, term)
	}
}

// curBase: the old-region version of a component.
func (vc *FnVC) curBase(st *State, comp string) string {
	if v, ok := st.base[comp]; ok {
		return v
	}
	if _, explicit := st.comp[comp]; explicit {
		// written only through paths that did not record a base (merges): the current version
		return st.comp[comp]
	}
	return vc.compInit(st, comp)
}

func (vc *FnVC) havocComp(st *State, comp string) string {
	n := vc.enc.freshConst(comp, vc.compSort[comp])
	st.comp[comp] = n
	st.base[comp] = n
	return n
}

// havocAll: everything may have changed, except the component classes listed in keep
// ("ghost", "pkg:openapi3", ...). A contract's `modifies *` keeps ghost state (it changes
// only when named) and the packages it declares preserved.
func (vc *FnVC) havocAll(st *State, keep ...string) {
	vc.epochCtr++
	alloc := vc.cur(st, "alloc")
	kept := map[string]bool{}
	for _, k := range keep {
		kept[k] = true
	}
	kept["local"] = true
	old := st.comp
	oldState := &State{ep: st.ep, comp: old}
	restore := map[string]string{}
	for k := range kept {
		if strings.HasPrefix(k, "comp:") {
			c := k[5:]
			if _, ok := vc.compSort[c]; ok {
				restore[c] = vc.cur(oldState, c)
			}
		}
	}
	privOld := map[int]string{}
	for i, pc := range vc.privCells {
		if _, ok := vc.compSort[pc.comp]; ok && !kept[compClass(pc.comp)] {
			privOld[i] = sel(vc.cur(oldState, pc.comp), pc.ref)
		}
	}
	st.comp = map[string]string{}
	oldBase := st.base
	st.base = map[string]string{}
	for k, v := range old {
		if kept[compClass(k)] {
			st.comp[k] = v
			if b, ok := oldBase[k]; ok {
				st.base[k] = b
			}
		}
	}
	defer func() {
		for c, v := range restore {
			st.comp[c] = v
		}
	}()
	classes := map[string]bool{"other": true, "ghost": true}
	for _, n := range modulePkgNames {
		classes["pkg:"+n] = true
	}
	for c := range classes {
		if !kept[c] {
			st.ep[c] = vc.epochCtr
		}
	}
	// the allocation counter only grows
	n := vc.havocComp(st, "alloc")
	vc.assume("(>= " + n + " " + alloc + ")")
	// local variable cells that only this function writes keep their content
	for i, pc := range vc.privCells {
		if ov, ok := privOld[i]; ok {
			keep := eq(sel(vc.cur(st, pc.comp), pc.ref), ov)
			if pc.caps != nil {
				keep = implies(not(vc.capturedSoFar(pc.caps)), keep)
			}
			vc.assume(keep)
		}
	}
}

// capturedSoFar: a condition that holds on every path to the current instruction on which one of
// the given closure creations has already run.
func (vc *FnVC) capturedSoFar(caps []ssa.Instruction) string {
	var ds []string
	for _, c := range caps {
		b := c.Block()
		if b == vc.curBlock {
			before := false
			for _, ins := range b.Instrs {
				if ins == c {
					before = true
					break
				}
				if ins == vc.curInstr {
					break
				}
			}
			if before {
				return "true"
			}
			continue
		}
		r, ok := vc.reach[b]
		if !ok {
			continue // not processed yet: later in every execution order
		}
		ds = append(ds, r)
	}
	return or(ds...)
}

// typeTok names a Go type for use in component names. Two types that Go lets alias behind a
// pointer conversion (identical underlying types) get the same token; struct-typed
// elements are handled field-wise elsewhere.
func typeTok(t types.Type) string {
	u := t.Underlying()
	switch x := u.(type) {
	case *types.Basic:
		if int(x.Kind()) < len(types.Typ) && types.Typ[x.Kind()] != nil {
			return sanitize(types.Typ[x.Kind()].Name())
		}
		return sanitize(x.Name())
	case *types.Interface:
		if n := namedOf(t); n != nil && x.NumMethods() > 0 {
			return typeShort(n)
		}
		return "iface"
	case *types.Signature:
		return "func"
	}
	return typeShort(u)
}

// component names
func (vc *FnVC) fieldComp(structT types.Type, idx int) (comp, sort string, fty types.Type) {
	st := structT.Underlying().(*types.Struct)
	f := st.Field(idx)
	comp = "F$" + typeShort(structT) + "$" + f.Name()
	sort = vc.enc.sortOf(f.Type())
	vc.compValType[comp] = f.Type()
	vc.regComp(comp, arraySort(sInt, sort))
	return comp, sort, f.Type()
}

func (vc *FnVC) cellComp(t types.Type) (comp, sort string) {
	sort = vc.enc.sortOf(t)
	comp = "Cell$" + typeTok(t)
	vc.compValType[comp] = t
	vc.regComp(comp, arraySort(sInt, sort))
	return
}

func (vc *FnVC) elemComp(t types.Type) (comp, sort string) {
	sort = vc.enc.sortOf(t)
	comp = "Elem$" + typeTok(t)
	vc.compValType[comp] = t
	vc.regComp(comp, arraySort(sInt, arraySort(sInt, sort)))
	return
}

func (vc *FnVC) mapComps(m *types.Map) (mh, mv, ks, vs string) {
	ks = vc.enc.sortOf(m.Key())
	vs = vc.enc.sortOf(m.Elem())
	mh = "MH$" + typeTok(m.Key()) + "$" + typeTok(m.Elem())
	mv = "MV$" + typeTok(m.Key()) + "$" + typeTok(m.Elem())
	vc.compValType[mv] = m.Elem()
	vc.regComp(mh, arraySort(sInt, arraySort(ks, sBool)))
	vc.regComp(mv, arraySort(sInt, arraySort(ks, vs)))
	vc.regComp(mlOf(mh), arraySort(sInt, sInt))
	return
}

// mlOf: the element-count component of the maps whose key-set component is mh (one per map type,
// like the key-set and value components, so that frames separate what Go's types separate).
func mlOf(mh string) string { return "ML" + mh[2:] }

func (vc *FnVC) globalComp(g *ssa.Global) (comp, sort string) {
	t := g.Type().(*types.Pointer).Elem()
	sort = vc.enc.sortOf(t)
	comp = "G$" + sanitize(g.Pkg.Pkg.Name()) + "$" + g.Name()
	if _, known := vc.compSort[comp]; !known {
		vc.regComp(comp, sort)
		if vc.prog.cs.NonNilGlobals[g.Pkg.Pkg.Path()+"::"+g.Name()] {
			// declared `global nonnil`: initialised once to a non-nil value (checked by scan),
			// hence non-nil in every state
			constComps[comp] = true
			vc.nonNilGlobals = append(vc.nonNilGlobals, comp)
			vc.usedNonNil[g] = true
			vc.enc.declConst(comp+"!e0", sort)
			if _, isBasic := t.Underlying().(*types.Basic); isBasic {
				// a scalar package constant (assigned once, in the initialiser): its value, when the
				// initialiser stores a compile-time constant
				if c := vc.prog.globalConstInit(g); c != nil {
					vc.emit(eq(comp+"!e0", vc.enc.constTerm(c.Value, t)))
				}
			} else {
				vc.emit(not(eq(comp+"!e0", vc.enc.zeroOfSort(sort, t))))
			}
			if tn, ok := vc.prog.cs.GlobalTypes[g.Pkg.Pkg.Path()+"::"+g.Name()]; ok && sort == sIface {
				te, err := parseTypeString(tn)
				if err != nil {
					panic(unsupported("global type " + tn))
				}
				env := vc.newEnv(vc.entry, vc.entry)
				env.pkg = g.Pkg.Pkg
				dt, _ := env.resolveType(te)
				vc.emit(eq("(if-tag "+comp+"!e0)", fmt.Sprint(vc.enc.typeTag(dt))))
			}
		}
	}
	return
}

func (vc *FnVC) alloc(st *State) string {
	vc.regComp("alloc", sInt)
	return vc.cur(st, "alloc")
}

// newRef allocates a fresh reference.
func (vc *FnVC) newRef(st *State, hint string) string {
	a := vc.alloc(st)
	r := vc.enc.freshConst(hint, sInt)
	vc.emit(eq(r, "(+ "+a+" 1)"))
	vc.setComp(st, "alloc", r)
	vc.freshRef[r] = true
	return r
}

// loadLv reads the value stored at an lvalue.
func (vc *FnVC) loadLv(st *State, lv *Lval) string {
	c := vc.cur(st, lv.comp)
	if lv.idx == "" {
		if lv.ref == "" {
			return c // global
		}
		return sel(c, lv.ref)
	}
	return sel(sel(c, lv.ref), lv.idx)
}

func (vc *FnVC) storeLv(st *State, lv *Lval, v string, fresh ...bool) {
	fr := len(fresh) > 0 && fresh[0]
	c := vc.cur(st, lv.comp)
	if lv.idx == "" {
		if lv.ref == "" {
			vc.setComp(st, lv.comp, v)
			return
		}
		vc.setCompF(st, lv.comp, sto(c, lv.ref, v), fr)
		return
	}
	vc.setCompF(st, lv.comp, sto(c, lv.ref, sto(sel(c, lv.ref), lv.idx, v)), fr)
}

// typeInv returns the representation invariant of a value of Go type t.
func (vc *FnVC) typeInv(st *State, v string, t types.Type) string {
	switch u := t.Underlying().(type) {
	case *types.Basic:
		if u.Info()&types.IsInteger != 0 {
			lo, hi := intRange(u)
			return and("(<= "+intLit(lo)+" "+v+")", "(<= "+v+" "+intLit(hi)+")")
		}
		if u.Info()&types.IsString != 0 {
			return "(<= (str.len " + v + ") 9223372036854775807)"
		}
		return "true"
	case *types.Pointer:
		return "(<= " + v + " " + vc.alloc(st) + ")"
	case *types.Map:
		mh0, _, _, _ := vc.mapComps(t.Underlying().(*types.Map))
		ml := vc.cur(st, mlOf(mh0))
		return and("(<= 0 "+v+")", "(<= "+v+" "+vc.alloc(st)+")", "(<= 0 "+sel(ml, v)+")", "(<= "+sel(ml, v)+" 9223372036854775807)", eq(sel(ml, "0"), "0"))
	case *types.Signature, *types.Chan:
		return and("(<= 0 "+v+")", "(<= "+v+" "+vc.alloc(st)+")")
	case *types.Slice:
		return and("(<= 0 (sl-arr "+v+"))", "(<= (sl-arr "+v+") "+vc.alloc(st)+")", "(<= 0 (sl-len "+v+"))",
			"(<= (sl-len "+v+") (sl-cap "+v+"))", "(<= (sl-cap "+v+") 9223372036854775807)",
			implies(eq("(sl-arr "+v+")", "0"), eq("(sl-cap "+v+")", "0")))
	case *types.Interface:
		return and("(<= 0 (if-tag "+v+"))", implies(eq("(if-tag "+v+")", "0"), eq("(if-data "+v+")", "0")))
	case *types.Struct:
		sortName := vc.enc.sortOf(t)
		var cs []string
		for i := 0; i < u.NumFields(); i++ {
			cs = append(cs, vc.typeInv(st, fmt.Sprintf("(%s$%d %s)", sortName, i, v), u.Field(i).Type()))
		}
		return and(cs...)
	}
	return "true"
}

// ---- CFG preparation ----

func (vc *FnVC) prepareCFG() []*ssa.BasicBlock {
	fn := vc.fn
	// drop the recover block and unreachable blocks
	reachable := map[*ssa.BasicBlock]bool{}
	var dfs func(b *ssa.BasicBlock)
	var post []*ssa.BasicBlock
	onStack := map[*ssa.BasicBlock]bool{}
	dfs = func(b *ssa.BasicBlock) {
		reachable[b] = true
		onStack[b] = true
		for _, s := range b.Succs {
			if onStack[s] {
				if !s.Dominates(b) {
					panic(unsupported("irreducible control flow"))
				}
				vc.backEdge[[2]*ssa.BasicBlock{b, s}] = true
				continue
			}
			if !reachable[s] {
				dfs(s)
			}
		}
		onStack[b] = false
		post = append(post, b)
	}
	dfs(fn.Blocks[0])
	// a back edge is also any edge u->h with h dominating u that DFS saw as a cross edge
	for b := range reachable {
		for _, s := range b.Succs {
			if s.Dominates(b) {
				vc.backEdge[[2]*ssa.BasicBlock{b, s}] = true
			}
		}
	}
	// loops
	for e := range vc.backEdge {
		u, h := e[0], e[1]
		li := vc.loops[h]
		if li == nil {
			li = &loopInfo{header: h, body: map[*ssa.BasicBlock]bool{h: true}}
			vc.loops[h] = li
		}
		// nodes reaching u without passing h
		var work []*ssa.BasicBlock
		if !li.body[u] {
			li.body[u] = true
			work = append(work, u)
		}
		for len(work) > 0 {
			x := work[len(work)-1]
			work = work[:len(work)-1]
			for _, p := range x.Preds {
				if !reachable[p] || li.body[p] {
					continue
				}
				li.body[p] = true
				work = append(work, p)
			}
		}
	}
	var hs []*ssa.BasicBlock
	for h := range vc.loops {
		hs = append(hs, h)
	}
	sort.Slice(hs, func(i, j int) bool { return hs[i].Index < hs[j].Index })
	for i, h := range hs {
		li := vc.loops[h]
		li.ordinal = i
		if vc.fc != nil {
			li.spec = vc.fc.Loops[i]
			if all := vc.fc.Loops[-1]; all != nil {
				merged := &LoopSpec{Ordinal: i}
				merged.Invariants = append(merged.Invariants, all.Invariants...)
				merged.Assumes = append(merged.Assumes, all.Assumes...)
				if li.spec != nil {
					merged.Invariants = append(merged.Invariants, li.spec.Invariants...)
					merged.Assumes = append(merged.Assumes, li.spec.Assumes...)
				}
				li.spec = merged
			}
		}
		vc.loopOrd = append(vc.loopOrd, li)
	}
	// topological order = reverse postorder of the DFS that skipped back edges.
	// The DFS above skipped only edges to on-stack nodes; cross edges that are back edges
	// by dominance are rare; recompute a clean order with all back edges removed.
	order := vc.topo(reachable)
	return order
}

func (vc *FnVC) topo(reachable map[*ssa.BasicBlock]bool) []*ssa.BasicBlock {
	indeg := map[*ssa.BasicBlock]int{}
	for b := range reachable {
		for _, s := range b.Succs {
			if vc.backEdge[[2]*ssa.BasicBlock{b, s}] {
				continue
			}
			indeg[s]++
		}
	}
	var ready []*ssa.BasicBlock
	ready = append(ready, vc.fn.Blocks[0])
	var order []*ssa.BasicBlock
	for len(ready) > 0 {
		// pick lowest index for determinism
		sort.Slice(ready, func(i, j int) bool { return ready[i].Index < ready[j].Index })
		b := ready[0]
		ready = ready[1:]
		order = append(order, b)
		for _, s := range b.Succs {
			if vc.backEdge[[2]*ssa.BasicBlock{b, s}] {
				continue
			}
			indeg[s]--
			if indeg[s] == 0 {
				ready = append(ready, s)
			}
		}
	}
	return order
}

// keysOf: the set of the first n elements of a backing array (element sort es), as an
// uninterpreted function with quantifier-free unfolding facts emitted where elements are
// appended or read (see doAppend, doIndexAddr).
func (vc *FnVC) keysOf(es, arr, n string) string {
	fn := "keysOf$" + sortTok(es)
	if !vc.enc.declared[fn] {
		vc.enc.declFun(fn, []string{arraySort(sInt, es), sInt}, arraySort(es, sBool))
		vc.enc.header = append(vc.enc.header, "(assert (forall ((a "+arraySort(sInt, es)+")) (! (= ("+fn+" a 0) ((as const "+arraySort(es, sBool)+") false)) :pattern (("+fn+" a 0)))))")
	}
	return "(" + fn + " " + arr + " " + n + ")"
}

// clauseApplies: an untagged clause applies to every property; a tagged one only to the
// properties it names (so that a scope assumption made for one property does not weaken the
// obligations of another).
func (vc *FnVC) clauseApplies(cl *Clause) bool {
	if len(cl.Tags) == 0 || vc.prop == "" {
		return true
	}
	if hasTag(cl.Tags, vc.prop) {
		return true
	}
	// a property declared to be checked within the scopes of others (`propertyscope C10 C01 C07`)
	for _, inc := range vc.prog.cs.PropertyScope[vc.prop] {
		if hasTag(cl.Tags, inc) {
			return true
		}
	}
	return false
}
