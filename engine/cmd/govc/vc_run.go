package main

import (
	"context"
	"fmt"
	"go/types"
	"os"
	"sort"
	"strings"

	"golang.org/x/tools/go/ssa"
)

type edge struct {
	from *ssa.BasicBlock
	cond string // full edge condition (includes reach of from)
	idx  int    // index of `from` among to.Preds
}

// generate builds the VC of the function. Errors about constructs outside the subset are
// recorded in vc.failed (the function's obligations then all count as failed).
func (vc *FnVC) generate() {
	defer func() {
		if r := recover(); r != nil {
			if u, ok := r.(unsupportedErr); ok {
				where := ""
				if vc.curInstr != nil {
					where = " at " + vc.posOf(vc.curInstr.Pos()) + " (" + vc.curInstr.String() + ")"
				}
				vc.failed = u.Error() + where
				return
			}
			panic(r)
		}
	}()
	fn := vc.fn
	if len(fn.Blocks) == 0 {
		panic(unsupported("function without body"))
	}
	if fn.Recover != nil {
		// functions with defer have a recover block; it is unreachable unless recover() is used
	}
	order := vc.prepareCFG()
	st := vc.entry.clone()
	vc.regComp("alloc", sInt)
	alloc0 := vc.cur(st, "alloc")
	vc.emit("(<= 0 " + alloc0 + ")")

	// parameters and free variables
	for _, p := range fn.Params {
		name := vc.enc.declConst("p$"+sanitize(p.Name()), vc.enc.sortOf(p.Type()))
		tv := TV{S: name, Sort: vc.enc.sortOf(p.Type()), Ty: p.Type()}
		vc.vals[p] = Val{k: vTerm, tv: tv}
		vc.params[p.Name()] = vc.vals[p]
		vc.emit(vc.typeInv(st, name, p.Type()))
	}
	for i, fv := range fn.FreeVars {
		if immutableCapture(fn, i) {
			// the captured variable is never reassigned: a constant of the closure
			et := fv.Type().Underlying().(*types.Pointer).Elem()
			cname := vc.enc.declConst("cap$"+sanitize(fv.Name()), vc.enc.sortOf(et))
			ctv := TV{S: cname, Sort: vc.enc.sortOf(et), Ty: et}
			vc.constCapture[fv] = ctv
			vc.params[fv.Name()] = Val{k: vTerm, tv: ctv}
			vc.emit(vc.typeInv(st, cname, et))
			pname := vc.enc.declConst("fv$"+sanitize(fv.Name()), sInt)
			vc.vals[fv] = Val{k: vTerm, tv: TV{S: pname, Sort: sInt, Ty: fv.Type()}}
			continue
		}
		name := vc.enc.declConst("fv$"+sanitize(fv.Name()), vc.enc.sortOf(fv.Type()))
		tv := TV{S: name, Sort: vc.enc.sortOf(fv.Type()), Ty: fv.Type()}
		vc.vals[fv] = Val{k: vTerm, tv: tv}
		// free variables are pointers to the captured variable's cell; expose both &x and x
		vc.params["&"+fv.Name()] = vc.vals[fv]
		vc.emit(vc.typeInv(st, name, fv.Type()))
		vc.emit("(< 0 " + name + ")")
	}
	// requires
	if vc.fc != nil {
		env := vc.newEnv(st, vc.entry)
		for _, cl := range vc.fc.Requires {
			if !vc.clauseApplies(cl) {
				continue
			}
			t := vc.trBool(cl.E, env)
			vc.emit(t)
		}
		for _, cl := range vc.fc.Assuming {
			if !vc.clauseApplies(cl) {
				continue
			}
			vc.enc.usedAssumptions["scope of the proof of "+vc.shortName()+": "+cl.Src] = true
			vc.emit(vc.trBool(cl.E, env))
		}
		vc.evalModifies(env)
	}
	for _, a := range vc.extraAssume {
		e, err := parseExpr(a)
		if err != nil {
			panic(unsupported("known-finding witness does not parse: " + err.Error()))
		}
		env := vc.newEnv(st, vc.entry)
		vc.emit(vc.trBool(e, env))
	}

	vc.reach[fn.Blocks[0]] = "true"
	for _, b := range order {
		vc.curBlock = b
		vc.curInstr = nil
		var bst *State
		if b == fn.Blocks[0] {
			bst = st
		} else {
			bst = vc.enterBlock(b)
		}
		vc.runBlock(b, bst)
	}
	vc.curBlock, vc.curInstr = nil, nil
	vc.emitAxioms()
}

// incomingEdges lists the non-back edges into b with their conditions.
func (vc *FnVC) incomingEdges(b *ssa.BasicBlock) []edge {
	var es []edge
	for i, p := range b.Preds {
		if vc.backEdge[[2]*ssa.BasicBlock{p, b}] {
			continue
		}
		if _, ok := vc.reach[p]; !ok {
			continue // unreachable predecessor
		}
		es = append(es, edge{from: p, cond: vc.edgeCond(p, b, i), idx: i})
	}
	return es
}

// edgeCond is the condition under which control passes from p to b (as b.Preds[i]).
func (vc *FnVC) edgeCond(p, b *ssa.BasicBlock, predIdx int) string {
	r := vc.reach[p]
	last := p.Instrs[len(p.Instrs)-1]
	if iff, ok := last.(*ssa.If); ok {
		c := vc.term(iff.Cond).S
		// which successor slot? if both successors are b, the edge is taken either way;
		// disambiguate by counting earlier occurrences of p in b.Preds
		if p.Succs[0] == b && p.Succs[1] == b {
			occ := 0
			for j := 0; j < predIdx; j++ {
				if b.Preds[j] == p {
					occ++
				}
			}
			if occ == 0 {
				return and(r, c)
			}
			return and(r, not(c))
		}
		if p.Succs[0] == b {
			return and(r, c)
		}
		return and(r, not(c))
	}
	return r
}

func (vc *FnVC) enterBlock(b *ssa.BasicBlock) *State {
	es := vc.incomingEdges(b)
	if len(es) == 0 {
		vc.reach[b] = "false"
		return vc.entry.clone()
	}
	// reach
	var conds []string
	for _, e := range es {
		conds = append(conds, e.cond)
	}
	rname := vc.enc.declConst(fmt.Sprintf("reach$b%d", b.Index), sBool)
	vc.emit(eq(rname, or(conds...)))
	vc.reach[b] = rname

	// merge states
	var st *State
	if len(es) == 1 {
		st = vc.out[es[0].from].clone()
	} else {
		st = vc.mergeStates(b, es)
	}
	// phis (pre-values from the non-back edges)
	li := vc.loops[b]
	for _, ins := range b.Instrs {
		phi, ok := ins.(*ssa.Phi)
		if !ok {
			break
		}
		sort := vc.enc.sortOf(phi.Type())
		name := vc.enc.freshConst("phi$"+sanitize(phi.Name()), sort)
		for _, e := range es {
			v := vc.term(phi.Edges[e.idx])
			vc.emit(implies(e.cond, eq(name, v.S)))
		}
		vc.vals[phi] = Val{k: vTerm, tv: TV{S: name, Sort: sort, Ty: phi.Type()}}
	}
	if li != nil {
		vc.enterLoop(b, li, st)
	}
	return st
}

var mergeIte = os.Getenv("GOVC_MERGE_ITE") != ""

func (vc *FnVC) mergeStates(b *ssa.BasicBlock, es []edge) *State {
	first := vc.out[es[0].from]
	sameEpoch := true
	for _, e := range es[1:] {
		if !vc.out[e.from].sameEpochs(first) {
			sameEpoch = false
		}
	}
	if !sameEpoch {
		// states that went through a havoc on one side: drop the edges that the assumptions
		// make infeasible (cheap quantifier-free check) before blurring the rest
		var live []edge
		for _, e := range es {
			if !vc.infeasible(e.cond) {
				live = append(live, e)
			}
		}
		if len(live) > 0 && len(live) < len(es) {
			es = live
			if len(es) == 1 {
				return vc.out[es[0].from].clone()
			}
			return vc.mergeStates(b, es)
		}
	}
	st := &State{ep: map[string]int{}, comp: map[string]string{}, base: map[string]string{}}
	for k, v := range first.ep {
		st.ep[k] = v
	}
	if !sameEpoch {
		// keep what is known about every component seen so far, then start fresh epochs for
		// the classes on which the incoming states disagree
		for _, e := range es {
			vc.materialize(vc.out[e.from])
		}
		vc.epochCtr++
		classes := map[string]bool{}
		for _, e := range es {
			for k := range vc.out[e.from].ep {
				classes[k] = true
			}
		}
		for c := range classes {
			for _, e := range es[1:] {
				if vc.out[e.from].ep[c] != first.ep[c] {
					st.ep[c] = vc.epochCtr
				}
			}
		}
	}
	keys := map[string]bool{}
	for _, e := range es {
		for k := range vc.out[e.from].comp {
			keys[k] = true
		}
	}
	var ks []string
	for k := range keys {
		ks = append(ks, k)
	}
	sort.Strings(ks)
	for _, k := range ks {
		same := true
		v0 := vc.cur(vc.out[es[0].from], k)
		for _, e := range es[1:] {
			if vc.cur(vc.out[e.from], k) != v0 {
				same = false
				break
			}
		}
		if same && sameEpoch {
			if _, explicit := first.comp[k]; explicit {
				st.comp[k] = v0
			}
			continue
		}
		if same {
			st.comp[k] = v0
			continue
		}
		if t, info, ok := vc.mergeByStores(es, k); ok {
			n := vc.enc.freshConst(k, vc.compSort[k])
			vc.emit(eq(n, t))
			if vc.stores == nil {
				vc.stores = map[string]storeInfo{}
			}
			vc.stores[n] = info
			st.comp[k] = n
			continue
		}
		n := vc.enc.freshConst(k, vc.compSort[k])
		if mergeIte {
			// definitional form: no (negated) array equalities for the solver to refute by
			// extensionality; the value on an unreachable join is irrelevant
			t := vc.cur(vc.out[es[len(es)-1].from], k)
			for i := len(es) - 2; i >= 0; i-- {
				t = ite(es[i].cond, vc.cur(vc.out[es[i].from], k), t)
			}
			vc.emit(eq(n, t))
		} else {
			for _, e := range es {
				vc.emit(implies(e.cond, eq(n, vc.cur(vc.out[e.from], k))))
			}
		}
		st.comp[k] = n
	}
	// old-region bases: kept when every incoming state agrees, else the merged version
	for _, k := range ks {
		b0 := vc.curBase(vc.out[es[0].from], k)
		same := true
		for _, e := range es[1:] {
			if vc.curBase(vc.out[e.from], k) != b0 {
				same = false
			}
		}
		if same {
			st.base[k] = b0
		} else if v, ok := st.comp[k]; ok {
			st.base[k] = v
		}
	}
	return st
}

// enterLoop: assert the invariants on entry, havoc what the loop modifies, assume them.
func (vc *FnVC) enterLoop(h *ssa.BasicBlock, li *loopInfo, st *State) {
	vc.checkInvariants(h, li, st, nil, "entry")
	// havoc
	mods, all, keep := vc.loopModifies(li)
	if all {
		vc.havocAll(st, keep...)
		for _, c := range mods {
			if _, ok := vc.compSort[c]; ok && c != "alloc" {
				vc.havocComp(st, c)
			}
		}
	} else {
		alloc := vc.alloc(st)
		for _, c := range mods {
			if _, ok := vc.compSort[c]; !ok {
				continue
			}
			if !li.nonFresh[c] && strings.HasPrefix(vc.compSort[c], "(Array Int ") && !strings.HasPrefix(c, "ML$") {
				// inside the loop this component is only written at objects allocated by the loop
				// itself (append, make, composite literals): everything that exists at the loop
				// header keeps its content
				prev := vc.cur(st, c)
				b := vc.curBase(st, c)
				n := vc.havocComp(st, c)
				st.base[c] = b
				q := vc.enc.freshName("qr")
				vc.assume("(forall ((" + q + " Int)) (! (=> (<= " + q + " " + alloc + ") (= (select " + n + " " + q + ") (select " + prev + " " + q + "))) :pattern ((select " + n + " " + q + "))))")
				continue
			}
			if vc.onlyFreshWrites(c) {
				// every write to this component in this function is proved (frame obligations)
				// to hit an object allocated here: the old region keeps its base version
				b := vc.curBase(st, c)
				n := vc.havocComp(st, c)
				st.base[c] = b
				if strings.HasPrefix(vc.compSort[c], "(Array Int ") {
					q := vc.enc.freshName("qr")
					vc.assume("(forall ((" + q + " Int)) (! (=> (<= " + q + " " + vc.cur(vc.entry, "alloc") + ") (= (select " + n + " " + q + ") (select " + b + " " + q + "))) :pattern ((select " + n + " " + q + "))))")
				}
				continue
			}
			vc.havocComp(st, c)
		}
		if na := vc.alloc(st); na != alloc {
			vc.assume("(>= " + na + " " + alloc + ")")
		}
	}
	for _, ins := range h.Instrs {
		phi, ok := ins.(*ssa.Phi)
		if !ok {
			break
		}
		sort := vc.enc.sortOf(phi.Type())
		name := vc.enc.freshConst("lphi$"+sanitize(phi.Name()), sort)
		vc.vals[phi] = Val{k: vTerm, tv: TV{S: name, Sort: sort, Ty: phi.Type()}}
		vc.assume(vc.typeInv(st, name, phi.Type()))
	}
	// automatic range-index invariant
	for _, a := range vc.autoInvariants(h, st) {
		vc.assume(a)
	}
	if li.spec != nil {
		env := vc.loopEnv(h, st)
		for _, inv := range li.spec.Invariants {
			if !vc.clauseApplies(inv) {
				continue
			}
			vc.assume(vc.trBool(inv.E, env))
		}
		for _, a := range li.spec.Assumes {
			vc.enc.usedAssumptions["axiom instance at loop "+fmt.Sprint(li.ordinal)+" of "+vc.shortName()+": "+a.Src] = true
			vc.assume(vc.trBool(a.E, env))
		}
	}
}

// checkInvariants asserts the loop invariants with the given phi values (nil = current).
func (vc *FnVC) checkInvariants(h *ssa.BasicBlock, li *loopInfo, st *State, phiVals map[*ssa.Phi]Val, when string) {
	saved := map[*ssa.Phi]Val{}
	if phiVals != nil {
		for phi, v := range phiVals {
			saved[phi] = vc.vals[phi]
			vc.vals[phi] = v
		}
	}
	for i, a := range vc.autoInvariants(h, st) {
		atags := vc.fnTags()
		if vc.fc != nil && vc.fc.Options["auto-invariants"] == "safety" {
			// iterator sanity of loops whose body calls functions with an unconstrained frame
			// (a callee could empty the map being ranged over): filed with the safety obligations
			atags = vc.safetyTags()
		}
		vc.oblige("inv-"+when, fmt.Sprintf("loop%d.auto%d", li.ordinal, i), a, atags, "range index bounds")
	}
	if li.spec != nil {
		env := vc.loopEnv(h, st)
		for i, inv := range li.spec.Invariants {
			if !vc.clauseApplies(inv) {
				continue
			}
			t := vc.trBool(inv.E, env)
			tags := vc.fnTags()
			if len(inv.Tags) > 0 {
				tags = append(append([]string{}, inv.Tags...), vc.prop)
			}
			vc.oblige("inv-"+when, fmt.Sprintf("loop%d.%d", li.ordinal, i), t, tags, inv.Src)
		}
	}
	if phiVals != nil {
		for phi, v := range saved {
			vc.vals[phi] = v
		}
	}
}

func (vc *FnVC) fnTags() []string {
	if vc.fc == nil {
		return nil
	}
	return vc.fc.Tags
}

// autoInvariants: for a range-over-slice/string loop, -1 <= idx < len.
func (vc *FnVC) autoInvariants(h *ssa.BasicBlock, st *State) []string {
	var out []string
	// range over a map: every key seen so far is a key of the map
	for _, p := range h.Preds {
		for _, ins := range p.Instrs {
			rg, ok := ins.(*ssa.Range)
			if !ok {
				continue
			}
			mt, isMap := rg.X.Type().Underlying().(*types.Map)
			if vc.loops[h] == nil || vc.loops[h].body[p] {
				continue
			}
			if !isMap {
				// range over a string: 0 <= position <= len
				pc := vc.cur(st, vc.posCompFor(rg))
				out = append(out, and("(<= 0 "+pc+")", "(<= "+pc+" (str.len "+vc.term(rg.X).S+"))"))
				continue
			}
			c := vc.seenCompFor(rg)
			ks := vc.enc.sortOf(mt.Key())
			q := "qs$" + sanitize(rg.Name())
			out = append(out, "(forall (("+q+" "+ks+")) (=> (select "+vc.cur(st, c)+" "+q+") "+vc.mapHas(st, mt, vc.term(rg.X).S, q)+"))")
		}
	}
	for _, ins := range h.Instrs {
		phi, ok := ins.(*ssa.Phi)
		if !ok {
			break
		}
		if phi.Comment != "rangeindex" {
			continue
		}
		// find t2 = phi + 1 ; t3 = t2 < len
		var lenV ssa.Value
		for _, ref := range *phi.Referrers() {
			if bo, ok := ref.(*ssa.BinOp); ok && bo.Op.String() == "+" {
				for _, r2 := range *bo.Referrers() {
					if cmp, ok := r2.(*ssa.BinOp); ok && cmp.Op.String() == "<" && cmp.X == bo {
						lenV = cmp.Y
					}
				}
			}
		}
		p := vc.term(phi).S
		out = append(out, "(<= (- 1) "+p+")")
		if lenV != nil {
			if _, defined := vc.vals[lenV]; defined || isConst(lenV) {
				out = append(out, "(<= (+ "+p+" 1) "+vc.term(lenV).S+")")
			}
		}
	}
	return out
}

func isConst(v ssa.Value) bool { _, ok := v.(*ssa.Const); return ok }

// loopEnv binds phi names (and #i) for invariants at header h.
func (vc *FnVC) loopEnv(h *ssa.BasicBlock, st *State) *Env {
	env := vc.newEnv(st, vc.entry)
	// source-level names of values defined before the loop: walk the dominator chain from the
	// entry block down to the header; in each block the phis (named by their variable) come
	// first, then the debug references in instruction order; later bindings override earlier
	var chain []*ssa.BasicBlock
	for b := h.Idom(); b != nil; b = b.Idom() {
		chain = append([]*ssa.BasicBlock{b}, chain...)
	}
	for _, b := range chain {
		for _, ins := range b.Instrs {
			if phi, ok := ins.(*ssa.Phi); ok {
				if phi.Comment != "" && phi.Comment != "rangeindex" {
					if v, defined := vc.vals[phi]; defined {
						if _, isParam := vc.params[phi.Comment]; isParam {
							delete(env.vars, phi.Comment)
						}
						env.vars[phi.Comment] = v
					}
				}
				continue
			}
			d, ok := ins.(*ssa.DebugRef)
			if !ok {
				continue
			}
			obj := d.Object()
			if obj == nil {
				continue
			}
			v, defined := vc.vals[d.X]
			if !defined {
				if _, isC := d.X.(*ssa.Const); !isC {
					continue
				}
				v = vc.val(d.X)
			}
			if d.IsAddr {
				if v.k == vTerm {
					env.vars["&"+obj.Name()] = v
					delete(env.vars, obj.Name())
				}
				continue
			}
			if _, isVar := obj.(*types.Var); !isVar {
				continue
			}
			env.vars[obj.Name()] = v
		}
	}
	for _, ins := range h.Instrs {
		phi, ok := ins.(*ssa.Phi)
		if !ok {
			break
		}
		v := vc.vals[phi]
		if phi.Comment == "rangeindex" {
			env.vars["#i"] = Val{k: vTerm, tv: TV{S: "(+ " + v.tv.S + " 1)", Sort: sInt, Ty: types.Typ[types.Int]}}
			// #xs: the slice being ranged over (the operand of the len() that bounds the loop)
			for _, ref := range *phi.Referrers() {
				if bo, ok := ref.(*ssa.BinOp); ok && bo.Op.String() == "+" {
					for _, r2 := range *bo.Referrers() {
						if cmp, ok := r2.(*ssa.BinOp); ok && cmp.Op.String() == "<" && cmp.X == bo {
							if lc, ok := cmp.Y.(*ssa.Call); ok {
								if b, ok := lc.Call.Value.(*ssa.Builtin); ok && b.Name() == "len" {
									if xv, defined := vc.vals[lc.Call.Args[0]]; defined {
										env.vars["#xs"] = xv
									}
								}
							}
						}
					}
				}
			}
			continue
		}
		if phi.Comment != "" {
			env.vars[phi.Comment] = v
		}
		env.vars[phi.Name()] = v
	}
	// range-over-map iterators created right before the loop: expose #seen
	for _, p := range h.Preds {
		for _, ins := range p.Instrs {
			if rg, ok := ins.(*ssa.Range); ok {
				if comp, ok := vc.rangeSeen[rg]; ok {
					env.seenComp = comp
				}
				if _, isMap := rg.X.Type().Underlying().(*types.Map); !isMap {
					env.vars["#pos"] = Val{k: vTerm, tv: TV{S: vc.cur(st, vc.posCompFor(rg)), Sort: sInt, Ty: types.Typ[types.Int]}}
				}
			}
		}
	}
	return env
}

// loopModifies computes the heap components a loop body may write (type-based).
func (vc *FnVC) loopModifies(li *loopInfo) (comps []string, all bool, keep []string) {
	set := map[string]bool{}
	li.nonFresh = map[string]bool{}
	var keepSet map[string]bool // intersection of what the `modifies *` calls keep
	for b := range li.body {
		for _, ins := range b.Instrs {
			switch x := ins.(type) {
			case *ssa.Store:
				for _, c := range vc.compsOfAddr(x.Addr) {
					set[c] = true
					if !rootAlloc(x.Addr) {
						li.nonFresh[c] = true
					}
				}
			case *ssa.MapUpdate:
				m := x.Map.Type().Underlying().(*types.Map)
				mh, mv, _, _ := vc.mapComps(m)
				set[mh], set[mv], set[mlOf(mh)] = true, true, true
				li.nonFresh[mh], li.nonFresh[mv], li.nonFresh[mlOf(mh)] = true, true, true
			case *ssa.Alloc, *ssa.MakeMap, *ssa.MakeSlice, *ssa.MakeClosure, *ssa.MakeChan:
				set["alloc"] = true
				if a, ok := x.(*ssa.Alloc); ok {
					for _, c := range vc.compsOfType(a.Type().(*types.Pointer).Elem()) {
						set[c] = true
					}
				}
				if mm, ok := x.(*ssa.MakeMap); ok {
					mh, mv, _, _ := vc.mapComps(mm.Type().Underlying().(*types.Map))
					set[mh], set[mv], set[mlOf(mh)] = true, true, true
				}
				if mc, ok := x.(*ssa.MakeClosure); ok {
					for _, c := range vc.closureComps(mc) {
						set[c] = true
					}
				}
				if ms, ok := x.(*ssa.MakeSlice); ok {
					c, _ := vc.elemComp(ms.Type().Underlying().(*types.Slice).Elem())
					set[c] = true
				}
			case *ssa.Range:
				if _, ok := x.X.Type().Underlying().(*types.Map); ok {
					set[vc.seenCompFor(x)] = true
				} else {
					set[vc.posCompFor(x)] = true
				}
			case *ssa.Next:
				if rg, ok := x.Iter.(*ssa.Range); ok {
					if _, ok := rg.X.Type().Underlying().(*types.Map); ok {
						set[vc.seenCompFor(rg)] = true
					} else {
						set[vc.posCompFor(rg)] = true
					}
				}
			case ssa.CallInstruction:
				cs, a, kp := vc.callModifies(x.Common())
				if a {
					all = true
					ks := map[string]bool{}
					for _, k := range kp {
						ks[k] = true
					}
					if keepSet == nil {
						keepSet = ks
					} else {
						for k := range keepSet {
							if !ks[k] {
								delete(keepSet, k)
							}
						}
					}
				}
				for _, c := range cs {
					set[c] = true
					if b, isB := x.Common().Value.(*ssa.Builtin); !isB || b.Name() != "append" {
						li.nonFresh[c] = true
					}
				}
			}
		}
	}
	for c := range set {
		comps = append(comps, c)
	}
	sort.Strings(comps)
	for k := range keepSet {
		keep = append(keep, k)
	}
	sort.Strings(keep)
	return comps, all, keep
}

// compsOfAddr: components a store through addr may write (by type).
func (vc *FnVC) compsOfAddr(addr ssa.Value) []string {
	switch a := addr.(type) {
	case *ssa.FieldAddr:
		st := a.X.Type().Underlying().(*types.Pointer).Elem()
		f := st.Underlying().(*types.Struct).Field(a.Field)
		if _, isStruct := f.Type().Underlying().(*types.Struct); isStruct {
			return vc.compsOfType(f.Type())
		}
		c, _, _ := vc.fieldComp(st, a.Field)
		return []string{c}
	case *ssa.IndexAddr:
		var et types.Type
		switch u := a.X.Type().Underlying().(type) {
		case *types.Slice:
			et = u.Elem()
		case *types.Pointer:
			et = u.Elem().Underlying().(*types.Array).Elem()
		}
		if _, isStruct := et.Underlying().(*types.Struct); isStruct {
			return vc.compsOfType(et)
		}
		c, _ := vc.elemComp(et)
		return []string{c}
	case *ssa.Global:
		c, _ := vc.globalComp(a)
		return []string{c}
	}
	pt, ok := addr.Type().Underlying().(*types.Pointer)
	if !ok {
		return nil
	}
	return vc.compsOfType(pt.Elem())
}

// compsOfType: components that make up a stored value of type t behind a pointer.
func (vc *FnVC) compsOfType(t types.Type) []string {
	if st, ok := t.Underlying().(*types.Struct); ok {
		var out []string
		for i := 0; i < st.NumFields(); i++ {
			if _, nested := st.Field(i).Type().Underlying().(*types.Struct); nested {
				out = append(out, vc.compsOfType(st.Field(i).Type())...)
				continue
			}
			c, _, _ := vc.fieldComp(t, i)
			out = append(out, c)
		}
		return out
	}
	if arr, ok := t.Underlying().(*types.Array); ok {
		c, _ := vc.elemComp(arr.Elem())
		return []string{c}
	}
	c, _ := vc.cellComp(t)
	return []string{c}
}

func (vc *FnVC) runBlock(b *ssa.BasicBlock, st *State) {
	for _, ins := range b.Instrs {
		vc.curInstr = ins
		switch x := ins.(type) {
		case *ssa.Phi:
			continue // handled on entry
		case *ssa.If, *ssa.Jump:
			// edges are evaluated by successors; back edges assert invariants here
		case *ssa.Return:
			vc.doReturn(x, st)
		case *ssa.Panic:
			vc.doPanic(x, st)
		default:
			vc.instr(ins, st)
		}
	}
	vc.out[b] = st
	// back edges
	for _, s := range b.Succs {
		if !vc.backEdge[[2]*ssa.BasicBlock{b, s}] {
			continue
		}
		li := vc.loops[s]
		predIdx := -1
		for i, p := range s.Preds {
			if p == b {
				predIdx = i
			}
		}
		cond := vc.edgeCond(b, s, predIdx)
		// evaluate the invariants under the edge condition
		savedReach := vc.reach[b]
		tmp := vc.enc.freshConst(fmt.Sprintf("back$b%d", b.Index), sBool)
		vc.emit(eq(tmp, cond))
		vc.reach[b] = tmp
		phiVals := map[*ssa.Phi]Val{}
		for _, ins := range s.Instrs {
			phi, ok := ins.(*ssa.Phi)
			if !ok {
				break
			}
			phiVals[phi] = Val{k: vTerm, tv: vc.term(phi.Edges[predIdx])}
		}
		vc.checkInvariants(s, li, st.clone(), phiVals, "preserved")
		vc.reach[b] = savedReach
	}
}

func (vc *FnVC) doPanic(x *ssa.Panic, st *State) {
	// a reachable panic is a safety violation unless the contract allows it (panics_if)
	allowed := "false"
	if vc.fc != nil && len(vc.fc.PanicsIf) > 0 {
		env := vc.newEnv(vc.entry, vc.entry)
		var cs []string
		for _, cl := range vc.fc.PanicsIf {
			cs = append(cs, vc.trBool(cl.E, env))
		}
		allowed = or(cs...)
	}
	vc.oblige("safety", "panic-unreachable", allowed, vc.safetyTags(), "explicit panic")
}

func (vc *FnVC) doReturn(x *ssa.Return, st *State) {
	vc.runDefers(st)
	if vc.fc == nil {
		return
	}
	var results []Val
	for _, r := range x.Results {
		results = append(results, vc.val(r))
	}
	env := vc.newEnv(st, vc.entry)
	env.results = results
	sig := vc.fn.Signature
	for i := 0; i < sig.Results().Len(); i++ {
		if n := sig.Results().At(i).Name(); n != "" && n != "_" && i < len(results) {
			if _, clash := env.vars[n]; !clash {
				env.vars[n] = results[i]
			}
		}
	}
	for i, cl := range vc.fc.Ensures {
		if !vc.clauseApplies(cl) {
			continue
		}
		tags := cl.Tags
		if len(tags) == 0 {
			tags = vc.fnTags()
		}
		d := fmt.Sprintf("%d", i)
		if cl.Name != "" {
			d = cl.Name
		}
		// split the clause into separately named obligations: both directions of an
		// equivalence, and each conjunct of a consequent
		parts := vc.splitClause(cl.E)
		for _, pt := range parts {
			t := vc.trBool(pt.e, env)
			dd := d
			if pt.label != "" {
				dd = d + "." + pt.label
			}
			ob := vc.oblige("post", dd, t, tags, cl.Src)
			ob.PartExpr = pt.e
		}
	}
	vc.smoke(fmt.Sprintf("return@b%d", vc.curBlock.Index))
}

func (vc *FnVC) describe() string {
	var sb strings.Builder
	for _, l := range vc.enc.header {
		sb.WriteString(l)
		sb.WriteByte('\n')
	}
	for _, l := range vc.stream {
		sb.WriteString(l)
		sb.WriteByte('\n')
	}
	return sb.String()
}

// materialize makes the implicit (never written since the last havoc) components of a state
// explicit, so that a merge with a state of a different epoch keeps them.
func (vc *FnVC) materialize(st *State) {
	for _, c := range sortedKeys(vc.compSort) {
		if _, ok := st.comp[c]; !ok {
			st.comp[c] = vc.compInit(st, c)
		}
	}
}

type clausePart struct {
	label string
	e     Expr
}

// splitClause: A <==> B becomes A ==> B ("fwd") and B ==> A ("bwd"); X ==> (C1 && ... && Cn)
// becomes X ==> Ci ("ci"), looking one level into spec functions whose body is a conjunction.
func (vc *FnVC) splitClause(e Expr) []clausePart {
	if b, ok := e.(*EBin); ok && b.Op == "<==>" {
		var out []clausePart
		for _, p := range vc.splitImpl(b.L, b.R) {
			l := "fwd"
			if p.label != "" {
				l += "." + p.label
			}
			out = append(out, clausePart{l, p.e})
		}
		out = append(out, clausePart{"bwd", &EBin{Op: "==>", L: b.R, R: b.L}})
		return out
	}
	if b, ok := e.(*EBin); ok && b.Op == "==>" {
		return vc.splitImpl(b.L, b.R)
	}
	return []clausePart{{"", e}}
}

func (vc *FnVC) splitImpl(ante, cons Expr) []clausePart {
	cs := vc.conjuncts(cons, 2)
	if len(cs) <= 1 {
		return []clausePart{{"", &EBin{Op: "==>", L: ante, R: cons}}}
	}
	var out []clausePart
	for i, c := range cs {
		out = append(out, clausePart{fmt.Sprintf("c%d", i+1), &EBin{Op: "==>", L: ante, R: c}})
	}
	return out
}

// conjuncts flattens top-level && and unfolds (depth times) calls of spec functions whose body
// is itself a conjunction, substituting arguments syntactically through let-bindings.
func (vc *FnVC) conjuncts(e Expr, depth int) []Expr {
	switch n := e.(type) {
	case *EOld:
		inner := vc.conjuncts(n.X, depth)
		if len(inner) <= 1 {
			return []Expr{e}
		}
		var out []Expr
		for _, c := range inner {
			out = append(out, &EOld{X: c})
		}
		return out
	case *EBin:
		if n.Op == "&&" {
			return append(vc.conjuncts(n.L, depth), vc.conjuncts(n.R, depth)...)
		}
	case *ECall:
		if depth > 0 {
			if id, ok := n.Fun.(*EIdent); ok {
				if sd, ok := vc.prog.cs.Specs[id.Name]; ok && sd.Body != nil && len(sd.Params) == len(n.Args) {
					if b, ok := sd.Body.(*EBin); ok && b.Op == "&&" {
						inner := vc.conjuncts(sd.Body, depth-1)
						var out []Expr
						for _, c := range inner {
							// bind parameters: let p := arg in c   (renamed to avoid capture)
							w := c
							ren := map[string]string{}
							for _, p := range sd.Params {
								ren[p.Name] = "$" + sd.Name + "$" + p.Name
							}
							w = renameIdents(w, ren)
							for k := len(sd.Params) - 1; k >= 0; k-- {
								w = &ELet{Name: ren[sd.Params[k].Name], Val: n.Args[k], Body: w}
							}
							out = append(out, &ESpecScope{Spec: sd, X: w})
						}
						return out
					}
				}
			}
		}
	}
	return []Expr{e}
}

// emitAxioms adds, to the header of every query of this function, the declared axioms whose
// spec symbols the VC uses (axioms are assumptions and are listed in the evidence). They are
// evaluated in the entry state.
func (vc *FnVC) emitAxioms() {
	if vc.failed != "" {
		return
	}
	if vc.usesSliceTag {
		for _, id := range vc.enc.tagIDs() {
			t := vc.enc.tagType[id]
			_, isSlice := t.Underlying().(*types.Slice)
			_, isStruct := t.Underlying().(*types.Struct)
			if isSlice {
				vc.enc.header = append(vc.enc.header, fmt.Sprintf("(assert (slicetag %d))", id))
			} else if !isStruct {
				vc.enc.header = append(vc.enc.header, fmt.Sprintf("(assert (not (slicetag %d)))", id))
			}
		}
		vc.enc.header = append(vc.enc.header, "(assert (not (slicetag 0)))")
	}
	for round := 0; round < 3; round++ {
		added := false
		for _, ax := range vc.prog.cs.Axioms {
			if ax.Lemma || vc.axiomDone[ax.Name] {
				continue
			}
			relevant := false
			for name := range vc.enc.usedSpecs {
				if exprMentions(ax.E, name) {
					if sd := vc.prog.cs.Specs[name]; sd != nil && sd.Body == nil {
						relevant = true
					}
				}
			}
			if !relevant {
				continue
			}
			vc.axiomDone[ax.Name] = true
			added = true
			env := vc.newEnv(vc.entry, vc.entry)
			env.vars = map[string]Val{}
			if ax.Pkg != "" {
				if pk := vc.prog.byPath[ax.Pkg]; pk != nil {
					env.pkg = pk.Types
				}
			}
			saved := vc.stream
			vc.stream = nil
			var t string
			func() {
				defer func() {
					if r := recover(); r != nil {
						if u, ok := r.(unsupportedErr); ok {
							vc.failed = "axiom " + ax.Name + ": " + u.Error()
							return
						}
						panic(r)
					}
				}()
				t = vc.trBool(ax.E, env)
			}()
			side := vc.stream
			vc.stream = saved
			if vc.failed != "" {
				return
			}
			for _, l := range side {
				if !strings.Contains(l, "q$") {
					vc.enc.header = append(vc.enc.header, l)
				}
			}
			vc.enc.header = append(vc.enc.header, "(assert "+t+")")
			vc.enc.usedAssumptions["axiom "+ax.Name+": "+ax.Src] = true
		}
		if !added {
			break
		}
	}
}

func exprMentions(e Expr, name string) bool {
	found := false
	var walk func(Expr)
	walk = func(x Expr) {
		if x == nil || found {
			return
		}
		switch n := x.(type) {
		case *ECall:
			if id, ok := n.Fun.(*EIdent); ok && id.Name == name {
				found = true
			}
			for _, a := range n.Args {
				walk(a)
			}
		case *EBin:
			walk(n.L)
			walk(n.R)
		case *EUn:
			walk(n.X)
		case *ESel:
			walk(n.X)
		case *EIndex:
			walk(n.X)
			walk(n.I)
		case *ESlice:
			walk(n.X)
			walk(n.Lo)
			walk(n.Hi)
		case *ECond:
			walk(n.C)
			walk(n.A)
			walk(n.B)
		case *EQuant:
			walk(n.Body)
		case *EOld:
			walk(n.X)
		case *ELet:
			walk(n.Val)
			walk(n.Body)
		case *ETypeAssert:
			walk(n.X)
		case *ESpecScope:
			walk(n.X)
		}
	}
	walk(e)
	return found
}

// infeasible asks the newest z3 (quantifier-free part of the assumptions, 400 ms) whether a
// condition is unsatisfiable at this point. Only a definite `unsat` counts.
func (vc *FnVC) infeasible(cond string) bool {
	if cond == "false" {
		return true
	}
	var sb strings.Builder
	sb.WriteString("(set-logic ALL)\n")
	keep := func(l string) bool {
		return !strings.HasPrefix(l, "(assert") || !(strings.Contains(l, "(forall ") || strings.Contains(l, "(exists "))
	}
	for _, l := range vc.enc.header {
		if keep(l) {
			sb.WriteString(l + "\n")
		}
	}
	for _, l := range vc.stream {
		if keep(l) {
			sb.WriteString(l + "\n")
		}
	}
	sb.WriteString("(assert " + cond + ")\n(check-sat)\n")
	f, err := os.CreateTemp("", "govc-feas-*.smt2")
	if err != nil {
		return false
	}
	defer os.Remove(f.Name())
	f.WriteString(sb.String())
	f.Close()
	st, _, _ := runSolver(context.Background(), solvers[0], f.Name(), 400)
	return st == "unsat"
}

// onlyFreshWrites: the function's contract names no location of this component, so every
// write to it carries a frame obligation that forces the target to be freshly allocated.
func (vc *FnVC) onlyFreshWrites(comp string) bool {
	if vc.fc == nil || vc.modAll || comp == "alloc" || isGhostComp(comp) || strings.HasPrefix(comp, "Seen$") || strings.HasPrefix(comp, "Pos$") || strings.HasPrefix(comp, "G$") {
		return false
	}
	for _, m := range vc.modset {
		if m.comp == comp {
			return false
		}
	}
	return true
}

// mergeByStores: when every incoming version of a reference-indexed component was obtained from one
// common version by stores at a few known references, the joined version is that common version
// with, at each of those references, the row selected by the edge taken. Exact (the versions agree
// with the base everywhere else) and free of equalities between arrays.
func (vc *FnVC) mergeByStores(es []edge, k string) (string, storeInfo, bool) {
	if os.Getenv("GOVC_NO_STOREMERGE") != "" || !strings.HasPrefix(vc.compSort[k], "(Array Int ") {
		return "", storeInfo{}, false
	}
	base := ""
	var refs []string
	for i, e := range es {
		v := vc.cur(vc.out[e.from], k)
		b := v
		var rs []string
		if info, ok := vc.stores[v]; ok {
			b, rs = info.base, info.refs
		}
		if i == 0 {
			base = b
		} else if b != base {
			return "", storeInfo{}, false
		}
		for _, r := range rs {
			dup := false
			for _, x := range refs {
				if x == r {
					dup = true
				}
			}
			if !dup {
				refs = append(refs, r)
			}
		}
	}
	if len(refs) == 0 || len(refs) > 3 {
		return "", storeInfo{}, false
	}
	t := base
	for _, r := range refs {
		row := sel(vc.cur(vc.out[es[len(es)-1].from], k), r)
		for i := len(es) - 2; i >= 0; i-- {
			row = ite(es[i].cond, sel(vc.cur(vc.out[es[i].from], k), r), row)
		}
		t = sto(t, r, row)
	}
	return t, storeInfo{base: base, refs: refs}, true
}
