package main

// Translation of contract expressions into SMT terms, evaluated in a heap state.

import (
	"os"
	"crypto/sha1"
	"fmt"
	"go/constant"
	"go/types"
	"math/big"
	"regexp"
	"sort"
	"strconv"
	"strings"

	"golang.org/x/tools/go/ssa"
)

type Env struct {
	vc       *FnVC
	vars     map[string]Val
	bound    map[string]TV
	st, old  *State
	results  []Val
	seenComp string
	pkg      *types.Package
	depth    int
	self     *TV // receiver of an iface contract
}

func (vc *FnVC) newEnv(st, old *State) *Env {
	e := &Env{vc: vc, vars: map[string]Val{}, bound: map[string]TV{}, st: st, old: old, pkg: vc.pkg}
	for k, v := range vc.params {
		e.vars[k] = v
	}
	// captured variables by their source name: *fv
	for _, fv := range vc.fn.FreeVars {
		// bound lazily in ident lookup (needs a load in the current state)
		_ = fv
	}
	return e
}

func (e *Env) child() *Env {
	n := *e
	n.bound = map[string]TV{}
	for k, v := range e.bound {
		n.bound[k] = v
	}
	return &n
}

type specErr string

func (e *Env) fail(f string, a ...any) {
	panic(unsupported("contract: " + fmt.Sprintf(f, a...)))
}

var nilTV = TV{S: "nil", Sort: "nil"}

func (vc *FnVC) trBool(x Expr, env *Env) string {
	t := env.tr(x)
	if t.Sort != sBool {
		env.fail("expected a boolean, got %s in %s", t.Sort, x.String())
	}
	return t.S
}

// resolveType maps contract type syntax to a Go type (nil, sort) for spec-only sorts.
func (e *Env) resolveType(te TypeExpr) (types.Type, string) {
	switch te.Kind {
	case "ptr":
		t, _ := e.resolveType(*te.Elem)
		if t == nil {
			e.fail("pointer to spec-only type %s", te.Elem)
		}
		return types.NewPointer(t), sInt
	case "slice":
		t, _ := e.resolveType(*te.Elem)
		if t == nil {
			e.fail("slice of spec-only type")
		}
		return types.NewSlice(t), sSlice
	case "map":
		k, ks := e.resolveType(*te.Key)
		v, vs := e.resolveType(*te.Elem)
		if k != nil && v != nil {
			return types.NewMap(k, v), sInt
		}
		return nil, arraySort(ks, vs) // ghost map: a total array
	case "set":
		_, ks := e.resolveType(*te.Elem)
		return nil, arraySort(ks, sBool)
	case "name":
		switch te.Name {
		case "ref":
			return nil, sInt
		case "seqbyte":
			return nil, sString
		case "any":
			t := types.Universe.Lookup("any").Type()
			return t, sIface
		case "tag":
			return nil, sInt
		}
		if obj := types.Universe.Lookup(te.Name); obj != nil {
			if tn, ok := obj.(*types.TypeName); ok {
				return tn.Type(), e.vc.enc.sortOf(tn.Type())
			}
		}
		if k := strings.LastIndex(te.Name, "."); k >= 0 {
			pk := e.vc.prog.lookupPkg(te.Name[:k])
			if pk == nil {
				e.fail("unknown package %q in type %s", te.Name[:k], te.Name)
			}
			obj := pk.Scope().Lookup(te.Name[k+1:])
			if tn, ok := obj.(*types.TypeName); ok {
				return tn.Type(), e.vc.enc.sortOf(tn.Type())
			}
			e.fail("unknown type %s", te.Name)
		}
		if e.pkg != nil {
			if obj := e.pkg.Scope().Lookup(te.Name); obj != nil {
				if tn, ok := obj.(*types.TypeName); ok {
					return tn.Type(), e.vc.enc.sortOf(tn.Type())
				}
			}
		}
		// try all module packages
		for _, pk := range e.vc.prog.byPath {
			if !strings.HasPrefix(pk.PkgPath, modulePath) {
				continue
			}
			if obj := pk.Types.Scope().Lookup(te.Name); obj != nil {
				if tn, ok := obj.(*types.TypeName); ok {
					return tn.Type(), e.vc.enc.sortOf(tn.Type())
				}
			}
		}
		e.fail("unknown type %s", te.Name)
	}
	e.fail("bad type expression")
	return nil, ""
}

func (p *Prog) lookupPkg(name string) *types.Package {
	if pk, ok := p.byPath[name]; ok {
		return pk.Types
	}
	if pk, ok := p.byName[name]; ok {
		return pk.Types
	}
	return nil
}

func (e *Env) valTV(v Val) TV {
	switch v.k {
	case vTerm:
		return v.tv
	case vLval:
		return TV{S: e.vc.lvalPtr(v.lv), Sort: sInt, Ty: types.NewPointer(v.lv.ty)}
	}
	e.fail("tuple used as a value")
	return TV{}
}

func (e *Env) tr(x Expr) TV {
	vc := e.vc
	switch n := x.(type) {
	case *EInt:
		bi, ok := new(big.Int).SetString(n.Val, 0)
		if !ok {
			e.fail("bad integer %s", n.Val)
		}
		return TV{S: intLit(bi), Sort: sInt, Ty: types.Typ[types.UntypedInt]}
	case *EFloat:
		f, err := strconv.ParseFloat(n.Val, 64)
		if err != nil {
			e.fail("bad float %s", n.Val)
		}
		return TV{S: f64Lit(f), Sort: sF64, Ty: types.Typ[types.Float64]}
	case *EStr:
		return TV{S: strLit(n.Val), Sort: sString, Ty: types.Typ[types.String]}
	case *EChar:
		return TV{S: fmt.Sprint(int(n.Val)), Sort: sInt, Ty: types.Typ[types.UntypedRune]}
	case *EIdent:
		return e.ident(n.Name)
	case *EOld:
		c := e.child()
		c.st = e.old
		return c.tr(n.X)
	case *ELet:
		v := e.tr(n.Val)
		c := e.child()
		c.bound[n.Name] = v
		return c.tr(n.Body)
	case *ECond:
		c := vc.trBool(n.C, e)
		a, b := e.tr(n.A), e.tr(n.B)
		a, b = e.unify(a, b)
		return TV{S: ite(c, a.S, b.S), Sort: a.Sort, Ty: a.Ty}
	case *EQuant:
		c := e.child()
		var binders []string
		var guards []string
		for _, qv := range n.Vars {
			ty, sort := c.resolveType(qv.Ty)
			name := vc.enc.freshName("q$" + qv.Name)
			binders = append(binders, "("+name+" "+sort+")")
			c.bound[qv.Name] = TV{S: name, Sort: sort, Ty: ty}
			_ = guards
		}
		body := vc.trBool(n.Body, c)
		q := "exists"
		if n.Forall {
			q = "forall"
		}
		return TV{S: "(" + q + " (" + strings.Join(binders, " ") + ") " + body + ")", Sort: sBool, Ty: types.Typ[types.Bool]}
	case *EUn:
		return e.unary(n)
	case *EBin:
		return e.binary(n)
	case *ESel:
		return e.selector(n)
	case *EIndex:
		return e.index(n)
	case *ESlice:
		s := e.tr(n.X)
		if s.Sort != sString {
			e.fail("slicing of %s not supported in contracts", s.Sort)
		}
		lo, hi := "0", "(str.len "+s.S+")"
		if n.Lo != nil {
			lo = e.tr(n.Lo).S
		}
		if n.Hi != nil {
			hi = e.tr(n.Hi).S
		}
		return TV{S: "(str.substr " + s.S + " " + lo + " (- " + hi + " " + lo + "))", Sort: sString, Ty: types.Typ[types.String]}
	case *ECall:
		return e.call(n)
	case *ETypeAssert:
		v := e.tr(n.X)
		if v.Sort != sIface {
			e.fail("type assertion on non-interface")
		}
		t, _ := e.resolveType(n.Ty)
		if t == nil {
			e.fail("type assertion to spec-only type")
		}
		if _, isI := t.Underlying().(*types.Interface); isI {
			return TV{S: v.S, Sort: sIface, Ty: t}
		}
		res := TV{S: vc.enc.unbox("(if-data "+v.S+")", t), Sort: vc.enc.sortOf(t), Ty: t}
		if !strings.Contains(v.S, "q$") && !strings.Contains(v.S, "op$") {
			// a value of this dynamic type satisfies the type's representation invariant
			vc.emit(implies(eq("(if-tag "+v.S+")", fmt.Sprint(vc.enc.typeTag(t))), vc.typeInv(e.st, res.S, t)))
		}
		return res
	case *ESpecScope:
		c := e.child()
		if n.Spec.Pkg != "" {
			if pk := vc.prog.byPath[n.Spec.Pkg]; pk != nil {
				c.pkg = pk.Types
			}
		}
		return c.tr(n.X)
	case *ETypeLit:
		t, _ := e.resolveType(n.Ty)
		if t == nil {
			e.fail("type literal of spec-only type")
		}
		return TV{S: fmt.Sprint(vc.enc.typeTag(t)), Sort: sInt, Ty: nil}
	}
	e.fail("unsupported expression %T", x)
	return TV{}
}

func (e *Env) ident(name string) TV {
	vc := e.vc
	if v, ok := e.bound[name]; ok {
		return v
	}
	switch name {
	case "nil":
		return nilTV
	case "true":
		return TV{S: "true", Sort: sBool, Ty: types.Typ[types.Bool]}
	case "false":
		return TV{S: "false", Sort: sBool, Ty: types.Typ[types.Bool]}
	case "result":
		if len(e.results) == 0 {
			// no function result here (a loop invariant): a local variable of that name
			if v, ok := e.vars["result"]; ok {
				return e.valTV(v)
			}
			e.fail("no result in this context")
		}
		return e.valTV(e.results[0])
	case "self":
		if e.self != nil {
			return *e.self
		}
	}
	if v, ok := e.vars[name]; ok {
		return e.valTV(v)
	}
	// captured variable: load through the free-variable cell
	if v, ok := e.vars["&"+name]; ok {
		pt := v.tv.Ty.Underlying().(*types.Pointer).Elem()
		s := vc.loadPtr(e.st, v.tv.S, pt)
		return TV{S: s, Sort: vc.enc.sortOf(pt), Ty: pt}
	}
	// ghost variable
	if g, ok := vc.prog.cs.Ghosts[name]; ok {
		comp, sort, ty := e.ghostComp(g)
		return TV{S: vc.cur(e.st, comp), Sort: sort, Ty: ty}
	}
	// package-level objects
	if e.pkg != nil {
		if obj := e.pkg.Scope().Lookup(name); obj != nil {
			return e.object(obj)
		}
	}
	if os.Getenv("GOVC_DEBUGENV") != "" {
		var ks []string
		for k := range e.vars {
			ks = append(ks, k)
		}
		fmt.Fprintf(os.Stderr, "unknown identifier %q; env has %v\n", name, ks)
	}
	e.fail("unknown identifier %q", name)
	return TV{}
}

func (e *Env) ghostComp(g *GhostDecl) (comp, sort string, ty types.Type) {
	c := e.child()
	if g.Pkg != "" {
		if pk := e.vc.prog.byPath[g.Pkg]; pk != nil {
			c.pkg = pk.Types
		}
	}
	ty, sort = c.resolveType(g.Ty)
	comp = "Ghost$" + g.Name
	e.vc.regComp(comp, sort)
	return
}

func (e *Env) object(obj types.Object) TV {
	vc := e.vc
	switch o := obj.(type) {
	case *types.Const:
		t := o.Type()
		if b, ok := t.Underlying().(*types.Basic); ok && b.Info()&types.IsUntyped != 0 {
			t = types.Default(t)
		}
		return TV{S: vc.enc.constTerm(o.Val(), t), Sort: vc.enc.sortOf(t), Ty: t}
	case *types.Var:
		// package-level variable
		sp := vc.prog.ssaPkgs[o.Pkg().Path()]
		if sp == nil {
			e.fail("no SSA package for %s", o.Pkg().Path())
		}
		g, ok := sp.Members[o.Name()].(*ssa.Global)
		if !ok {
			e.fail("%s is not a global", o.Name())
		}
		comp, sort := vc.globalComp(g)
		if _, isStruct := o.Type().Underlying().(*types.Struct); isStruct {
			// struct-valued package variables are denoted by their address
			return TV{S: vc.lvalPtr(&Lval{comp: comp, sort: sort, ref: ""}), Sort: sInt, Ty: types.NewPointer(o.Type())}
		}
		return TV{S: vc.cur(e.st, comp), Sort: sort, Ty: o.Type()}
	case *types.Nil:
		return nilTV
	}
	e.fail("unsupported object %s", obj)
	return TV{}
}

func (e *Env) unify(a, b TV) (TV, TV) {
	if a.Sort == "nil" && b.Sort != "nil" {
		a = TV{S: e.vc.enc.zeroOfSort(b.Sort, b.Ty), Sort: b.Sort, Ty: b.Ty}
	}
	if b.Sort == "nil" && a.Sort != "nil" {
		b = TV{S: e.vc.enc.zeroOfSort(a.Sort, a.Ty), Sort: a.Sort, Ty: a.Ty}
	}
	if a.Sort != b.Sort {
		// int literal against float
		if a.Sort == sInt && b.Sort == sF64 && isLiteralInt(a.S) {
			a = TV{S: "((_ to_fp 11 53) RNE " + a.S + ".0)", Sort: sF64, Ty: b.Ty}
		} else if b.Sort == sInt && a.Sort == sF64 && isLiteralInt(b.S) {
			b = TV{S: "((_ to_fp 11 53) RNE " + b.S + ".0)", Sort: sF64, Ty: a.Ty}
		} else if a.Sort == sIface && b.Sort != sIface && b.Ty != nil {
			// compare an interface with a concrete value: box the concrete side
			b = e.toIface(b)
		} else if b.Sort == sIface && a.Sort != sIface && a.Ty != nil {
			a = e.toIface(a)
		} else {
			e.fail("sort mismatch: %s vs %s (%s, %s)", a.Sort, b.Sort, a.S, b.S)
		}
	}
	return a, b
}

func (e *Env) toIface(v TV) TV {
	t := v.Ty
	if v.Sort == sIface {
		return v // already an interface value: conversion to `any` keeps the dynamic value
	}
	if b, ok := t.Underlying().(*types.Basic); ok && b.Info()&types.IsUntyped != 0 {
		t = types.Default(t)
	}
	tag := e.vc.enc.typeTag(t)
	bx := e.vc.enc.box(v.S, t)
	if f := e.vc.enc.boxFact(v.S, t); f != "true" && !strings.Contains(v.S, "q$") {
		e.vc.emit(f)
	}
	return TV{S: fmt.Sprintf("(mk-iface %d %s)", tag, bx), Sort: sIface, Ty: types.Universe.Lookup("any").Type()}
}

func isLiteralInt(s string) bool {
	if s == "" {
		return false
	}
	for _, c := range s {
		if c < '0' || c > '9' {
			return false
		}
	}
	return true
}

func (e *Env) unary(n *EUn) TV {
	vc := e.vc
	switch n.Op {
	case "!":
		return TV{S: not(vc.trBool(n.X, e)), Sort: sBool, Ty: types.Typ[types.Bool]}
	case "-":
		v := e.tr(n.X)
		switch v.Sort {
		case sInt:
			return TV{S: "(- " + v.S + ")", Sort: sInt, Ty: v.Ty}
		case sF64:
			return TV{S: "(fp.neg " + v.S + ")", Sort: sF64, Ty: v.Ty}
		}
		e.fail("negation of %s", v.Sort)
	case "*":
		// dereference; parameters bound to lvalues are read through the lvalue
		if id, ok := n.X.(*EIdent); ok {
			if v, ok := e.vars[id.Name]; ok && v.k == vLval {
				if _, bound := e.bound[id.Name]; !bound {
					return TV{S: vc.loadLv(e.st, v.lv), Sort: v.lv.sort, Ty: v.lv.ty}
				}
			}
		}
		p := e.tr(n.X)
		if p.Ty == nil {
			e.fail("dereference of untyped term")
		}
		pt, ok := p.Ty.Underlying().(*types.Pointer)
		if !ok {
			e.fail("dereference of non-pointer %s", p.Ty)
		}
		return TV{S: vc.loadPtr(e.st, p.S, pt.Elem()), Sort: vc.enc.sortOf(pt.Elem()), Ty: pt.Elem()}
	}
	e.fail("unsupported unary %s", n.Op)
	return TV{}
}

func (e *Env) binary(n *EBin) TV {
	vc := e.vc
	boolT := types.Typ[types.Bool]
	switch n.Op {
	case "&&":
		return TV{S: and(vc.trBool(n.L, e), vc.trBool(n.R, e)), Sort: sBool, Ty: boolT}
	case "||":
		return TV{S: or(vc.trBool(n.L, e), vc.trBool(n.R, e)), Sort: sBool, Ty: boolT}
	case "==>":
		return TV{S: implies(vc.trBool(n.L, e), vc.trBool(n.R, e)), Sort: sBool, Ty: boolT}
	case "<==>":
		return TV{S: eq(vc.trBool(n.L, e), vc.trBool(n.R, e)), Sort: sBool, Ty: boolT}
	}
	l, r := e.tr(n.L), e.tr(n.R)
	switch n.Op {
	case "==", "!=":
		// typeof(x) compared with a type that has a single value (struct{}): an interface value of
		// that dynamic type holds that value - stated for this x only (interface values are pairs
		// the program built, not arbitrary pairs)
		for _, pr := range [][2]Expr{{n.L, n.R}, {n.R, n.L}} {
			call, ok1 := pr[0].(*ECall)
			tl, ok2 := pr[1].(*ETypeLit)
			if !ok1 || !ok2 {
				continue
			}
			if id, ok := call.Fun.(*EIdent); !ok || id.Name != "typeof" || len(call.Args) != 1 {
				continue
			}
			t, _ := e.resolveType(tl.Ty)
			if t == nil {
				continue
			}
			if stt, ok := t.Underlying().(*types.Struct); ok && stt.NumFields() == 0 {
				x := e.tr(call.Args[0])
				if x.Sort == sIface && !strings.Contains(x.S, "q$") {
					bx := vc.enc.box(vc.enc.zero(t), t)
					vc.emit(implies(eq("(if-tag "+x.S+")", fmt.Sprint(vc.enc.typeTag(t))), eq("(if-data "+x.S+")", bx)))
				}
			}
		}
		var s string
		if l.Sort == "nil" && r.Sort == "nil" {
			s = "true"
		} else if l.Sort == sSlice && r.Sort == "nil" {
			s = eq("(sl-arr "+l.S+")", "0")
		} else if r.Sort == sSlice && l.Sort == "nil" {
			s = eq("(sl-arr "+r.S+")", "0")
		} else {
			l, r = e.unify(l, r)
			if l.Sort == sF64 || l.Sort == sF32 {
				s = "(fp.eq " + l.S + " " + r.S + ")"
			} else {
				s = eq(l.S, r.S)
			}
		}
		if n.Op == "!=" {
			s = not(s)
		}
		return TV{S: s, Sort: sBool, Ty: boolT}
	case "<", "<=", ">", ">=":
		l, r = e.unify(l, r)
		var s string
		switch l.Sort {
		case sInt:
			s = "(" + n.Op + " " + l.S + " " + r.S + ")"
		case sF64, sF32:
			s = "(" + map[string]string{"<": "fp.lt", "<=": "fp.leq", ">": "fp.gt", ">=": "fp.geq"}[n.Op] + " " + l.S + " " + r.S + ")"
		case sString:
			switch n.Op {
			case "<":
				s = "(str.< " + l.S + " " + r.S + ")"
			case "<=":
				s = "(str.<= " + l.S + " " + r.S + ")"
			case ">":
				s = "(str.< " + r.S + " " + l.S + ")"
			case ">=":
				s = "(str.<= " + r.S + " " + l.S + ")"
			}
		default:
			e.fail("ordering on %s", l.Sort)
		}
		return TV{S: s, Sort: sBool, Ty: boolT}
	case "+", "-", "*", "/", "%":
		l, r = e.unify(l, r)
		switch l.Sort {
		case sInt:
			op := n.Op
			if op == "/" {
				op = "div"
			}
			if op == "%" {
				op = "mod"
			}
			return TV{S: "(" + op + " " + l.S + " " + r.S + ")", Sort: sInt, Ty: l.Ty}
		case sString:
			if n.Op != "+" {
				e.fail("string operator %s", n.Op)
			}
			return TV{S: "(str.++ " + l.S + " " + r.S + ")", Sort: sString, Ty: l.Ty}
		case sF64:
			switch n.Op {
			case "+":
				return TV{S: "(fp.add RNE " + l.S + " " + r.S + ")", Sort: sF64, Ty: l.Ty}
			case "-":
				return TV{S: "(fp.sub RNE " + l.S + " " + r.S + ")", Sort: sF64, Ty: l.Ty}
			case "*":
				return TV{S: "(fp.mul RNE " + l.S + " " + r.S + ")", Sort: sF64, Ty: l.Ty}
			case "/":
				return TV{S: vc.fdiv(l.S, r.S), Sort: sF64, Ty: l.Ty}
			}
		}
		e.fail("arithmetic on %s", l.Sort)
	}
	e.fail("unsupported operator %s", n.Op)
	return TV{}
}

// fieldOf reads field `name` of a struct reached through v (pointer or value).
func (e *Env) fieldOf(v TV, name string) TV {
	vc := e.vc
	if v.Ty == nil {
		e.fail("field %s of untyped term", name)
	}
	obj, path, _ := types.LookupFieldOrMethod(v.Ty, true, e.pkgOfType(v.Ty), name)
	fld, ok := obj.(*types.Var)
	if !ok || !fld.IsField() {
		e.fail("no field %s in %s", name, v.Ty)
	}
	cur := v
	for _, idx := range path {
		t := cur.Ty
		if pt, ok := t.Underlying().(*types.Pointer); ok {
			// through a pointer: heap component
			stT := pt.Elem()
			stt, ok := stT.Underlying().(*types.Struct)
			if !ok {
				e.fail("field access through pointer to non-struct %s", stT)
			}
			f := stt.Field(idx)
			if _, nested := f.Type().Underlying().(*types.Struct); nested {
				cur = TV{S: vc.embPtr(stT, idx, cur.S), Sort: sInt, Ty: types.NewPointer(f.Type())}
				continue
			}
			comp, sort, fty := vc.fieldComp(stT, idx)
			cur = TV{S: sel(vc.cur(e.st, comp), cur.S), Sort: sort, Ty: fty}
			continue
		}
		stt, ok := t.Underlying().(*types.Struct)
		if !ok {
			e.fail("field access on non-struct %s", t)
		}
		sortName := vc.enc.sortOf(t)
		f := stt.Field(idx)
		cur = TV{S: fmt.Sprintf("(%s$%d %s)", sortName, idx, cur.S), Sort: vc.enc.sortOf(f.Type()), Ty: f.Type()}
	}
	return cur
}

func (e *Env) pkgOfType(t types.Type) *types.Package {
	if n := namedOf(t); n != nil && n.Obj().Pkg() != nil {
		return n.Obj().Pkg()
	}
	return e.pkg
}

func (e *Env) selector(n *ESel) TV {
	vc := e.vc
	// result.N
	if id, ok := n.X.(*EIdent); ok {
		if id.Name == "result" {
			if k, err := strconv.Atoi(n.Name); err == nil {
				if k >= len(e.results) {
					e.fail("result.%d out of range", k)
				}
				return e.valTV(e.results[k])
			}
		}
		// qualified identifier pkg.Name
		if _, isVar := e.vars[id.Name]; !isVar {
			if _, isBound := e.bound[id.Name]; !isBound {
				if pk := vc.prog.lookupPkg(id.Name); pk != nil && (e.pkg == nil || e.pkg.Scope().Lookup(id.Name) == nil) {
					obj := pk.Scope().Lookup(n.Name)
					if obj == nil {
						e.fail("unknown %s.%s", id.Name, n.Name)
					}
					return e.object(obj)
				}
			}
		}
	}
	x := e.tr(n.X)
	switch x.Sort {
	case sSlice:
		switch n.Name {
		case "len":
			return TV{S: "(sl-len " + x.S + ")", Sort: sInt, Ty: types.Typ[types.Int]}
		}
	case sIface:
		switch n.Name {
		case "tag":
			return TV{S: "(if-tag " + x.S + ")", Sort: sInt}
		case "data":
			return TV{S: "(if-data " + x.S + ")", Sort: sInt}
		}
	}
	return e.fieldOf(x, n.Name)
}

func (e *Env) index(n *EIndex) TV {
	vc := e.vc
	x := e.tr(n.X)
	i := e.tr(n.I)
	if x.Ty == nil {
		// ghost map/set: total array
		if !strings.HasPrefix(x.Sort, "(Array ") {
			e.fail("indexing of %s", x.Sort)
		}
		ks, vs := arrayParts(x.Sort)
		if i.Sort != ks {
			if i.Sort == "nil" {
				i = TV{S: vc.enc.zeroOfSort(ks, nil), Sort: ks}
			} else {
				e.fail("ghost map key sort %s, got %s", ks, i.Sort)
			}
		}
		return TV{S: sel(x.S, i.S), Sort: vs}
	}
	switch u := x.Ty.Underlying().(type) {
	case *types.Map:
		ks := vc.enc.sortOf(u.Key())
		if i.Sort != ks {
			e.fail("map key sort mismatch")
		}
		if !strings.Contains(i.S, "q$") && !strings.Contains(x.S, "q$") {
			// a present key implies a non-empty map (instance of the cardinality invariant)
			mhc, _, _, _ := vc.mapComps(u)
			vc.emit(implies(vc.mapHas(e.st, u, x.S, i.S), "(> "+sel(vc.cur(e.st, mlOf(mhc)), x.S)+" 0)"))
		}
		return TV{S: vc.mapGet(e.st, u, x.S, i.S), Sort: vc.enc.sortOf(u.Elem()), Ty: u.Elem()}
	case *types.Slice:
		if _, isStruct := u.Elem().Underlying().(*types.Struct); isStruct {
			fn := "eaddr$" + typeShort(u.Elem())
			vc.enc.declFun(fn, []string{sInt, sInt}, sInt)
			return TV{S: "(" + fn + " (sl-arr " + x.S + ") " + i.S + ")", Sort: sInt, Ty: types.NewPointer(u.Elem())}
		}
		comp, sort := vc.elemComp(u.Elem())
		return TV{S: sel(sel(vc.cur(e.st, comp), "(sl-arr "+x.S+")"), i.S), Sort: sort, Ty: u.Elem()}
	case *types.Basic:
		if u.Info()&types.IsString != 0 {
			return TV{S: "(str.to_code (str.at " + x.S + " " + i.S + "))", Sort: sInt, Ty: types.Typ[types.Uint8]}
		}
	case *types.Pointer:
		// pointer to a named slice/map type: index through it
		inner := TV{S: vc.loadPtr(e.st, x.S, u.Elem()), Sort: vc.enc.sortOf(u.Elem()), Ty: u.Elem()}
		c := e.child()
		name := vc.enc.freshName("tmp")
		c.bound[name] = inner
		c.bound["$idx"] = i
		return c.index(&EIndex{X: &EIdent{name}, I: &EIdent{"$idx"}})
	}
	e.fail("indexing of %s", x.Ty)
	return TV{}
}

func arrayParts(sort string) (k, v string) {
	// "(Array K V)"
	inner := strings.TrimSuffix(strings.TrimPrefix(sort, "(Array "), ")")
	depth := 0
	for i := 0; i < len(inner); i++ {
		switch inner[i] {
		case '(':
			depth++
		case ')':
			depth--
		case ' ':
			if depth == 0 {
				return inner[:i], inner[i+1:]
			}
		}
	}
	return inner, ""
}

func (e *Env) call(n *ECall) TV {
	vc := e.vc
	id, ok := n.Fun.(*EIdent)
	if !ok {
		// qualified spec: pkg.name(...)? not supported
		e.fail("unsupported call %s", n.Fun)
	}
	boolT := types.Typ[types.Bool]
	intT := types.Typ[types.Int]
	strT := types.Typ[types.String]
	arg := func(i int) TV {
		if i >= len(n.Args) {
			e.fail("%s: missing argument %d", id.Name, i)
		}
		return e.tr(n.Args[i])
	}
	switch id.Name {
	case "len":
		v := arg(0)
		switch v.Sort {
		case sString:
			return TV{S: "(str.len " + v.S + ")", Sort: sInt, Ty: intT}
		case sSlice:
			return TV{S: "(sl-len " + v.S + ")", Sort: sInt, Ty: intT}
		case sInt:
			if v.Ty != nil {
				if mtl, ok := v.Ty.Underlying().(*types.Map); ok {
					mhc, _, _, _ := vc.mapComps(mtl)
					return TV{S: ite(eq(v.S, "0"), "0", sel(vc.cur(e.st, mlOf(mhc)), v.S)), Sort: sInt, Ty: intT}
				}
				if pt, ok := v.Ty.Underlying().(*types.Pointer); ok {
					inner := TV{S: vc.loadPtr(e.st, v.S, pt.Elem()), Sort: vc.enc.sortOf(pt.Elem()), Ty: pt.Elem()}
					c := e.child()
					c.bound["$x"] = inner
					return c.call(&ECall{Fun: id, Args: []Expr{&EIdent{"$x"}}})
				}
			}
		}
		e.fail("len of %s", v.Sort)
	case "cap":
		v := arg(0)
		return TV{S: "(sl-cap " + v.S + ")", Sort: sInt, Ty: intT}
	case "has":
		m, k := arg(0), arg(1)
		if m.Ty == nil {
			return TV{S: sel(m.S, k.S), Sort: sBool, Ty: boolT}
		}
		mt, ok := m.Ty.Underlying().(*types.Map)
		if !ok {
			e.fail("has() on non-map %s", m.Ty)
		}
		return TV{S: vc.mapHas(e.st, mt, m.S, k.S), Sort: sBool, Ty: boolT}
	case "called", "lastResult":
		// called("F"): a call of F in this function has been executed on the path to here;
		// lastResult("F", i): result i of that call (F must have exactly one call site here,
		// outside loops)
		if len(n.Args) >= 1 {
			if ks, ok := n.Args[0].(*EStr); ok {
				sites, ok := vc.callSitesOf(ks.Val)
				if !ok {
					e.fail("%s(%q): a call site lies inside a loop", id.Name, ks.Val)
				}
				if id.Name == "called" {
					var ds []string
					for _, c := range sites {
						ds = append(ds, vc.calledSoFar(c))
					}
					return TV{S: or(ds...), Sort: sBool, Ty: boolT}
				}
				if len(sites) != 1 || len(n.Args) != 2 {
					e.fail("lastResult(%q, i): needs exactly one call site (found %d)", ks.Val, len(sites))
				}
				idx := 0
				if iv, ok := n.Args[1].(*EInt); ok {
					fmt.Sscanf(iv.Val, "%d", &idx)
				}
				v, ok := vc.vals[sites[0]]
				if !ok {
					// not executed yet on any path to here: an arbitrary value of the right sort
					rt := sites[0].Call.Signature().Results().At(idx).Type()
					so := vc.enc.sortOf(rt)
					return TV{S: vc.enc.freshConst("nores", so), Sort: so, Ty: rt}
				}
				if v.k == vTuple {
					return e.valTV(v.tup[idx])
				}
				return e.valTV(v)
			}
		}
		e.fail("%s(\"<function key>\"...)", id.Name)
		return TV{}
	case "entry":
		// entry(p): the value parameter p had on entry (parameters are mutable; inside a loop
		// invariant the plain name denotes the current value)
		if len(n.Args) == 1 {
			if pid, ok := n.Args[0].(*EIdent); ok {
				if v, ok := vc.params[pid.Name]; ok {
					return e.valTV(v)
				}
			}
		}
		e.fail("entry(<parameter>)")
		return TV{}
	case "dom":
		// dom(m): the key set of a map, as a set value (compare with seenset(), store(...))
		m := arg(0)
		mt, ok := m.Ty.Underlying().(*types.Map)
		if !ok {
			e.fail("dom() of non-map")
		}
		return TV{S: vc.mapDom(e.st, mt, m.S), Sort: arraySort(vc.enc.sortOf(mt.Key()), sBool)}
	case "seenIn":
		// seenIn(k, x): x has been yielded by the map-range loop with ordinal k of this function
		// (for the invariants of a loop nested inside it)
		if len(n.Args) == 2 {
			if iv, ok := n.Args[0].(*EInt); ok {
				ord := 0
				fmt.Sscanf(iv.Val, "%d", &ord)
				for _, li := range vc.loopOrd {
					if li.ordinal != ord {
						continue
					}
					for _, p := range li.header.Preds {
						if li.body[p] {
							continue
						}
						for _, ins := range p.Instrs {
							if rg, ok := ins.(*ssa.Range); ok {
								if comp, ok := vc.rangeSeen[rg]; ok {
									return TV{S: sel(vc.cur(e.st, comp), arg(1).S), Sort: sBool, Ty: boolT}
								}
							}
						}
					}
				}
			}
		}
		e.fail("seenIn(<loop ordinal of a map-range loop>, x)")
		return TV{}
	case "seen":
		if e.seenComp == "" {
			e.fail("seen() outside a map-range loop")
		}
		return TV{S: sel(vc.cur(e.st, e.seenComp), arg(0).S), Sort: sBool, Ty: boolT}
	case "typeof":
		v := arg(0)
		if v.Sort != sIface {
			e.fail("typeof on non-interface")
		}
		return TV{S: "(if-tag " + v.S + ")", Sort: sInt}
	case "iface":
		return e.toIface(arg(0))
	case "fresh":
		v := arg(0)
		s := v.S
		if v.Sort == sIface {
			s = "(if-data " + v.S + ")"
		} else if v.Sort == sSlice {
			s = "(sl-arr " + v.S + ")"
		}
		return TV{S: and("(> "+s+" "+vc.alloc(e.old)+")", "(<= "+s+" "+vc.alloc(e.st)+")"), Sort: sBool, Ty: boolT}
	case "allocated":
		v := arg(0)
		return TV{S: "(<= " + v.S + " " + vc.alloc(e.st) + ")", Sort: sBool, Ty: boolT}
	case "hasPrefix":
		return TV{S: "(str.prefixof " + arg(1).S + " " + arg(0).S + ")", Sort: sBool, Ty: boolT}
	case "hasSuffix":
		return TV{S: "(str.suffixof " + arg(1).S + " " + arg(0).S + ")", Sort: sBool, Ty: boolT}
	case "contains":
		return TV{S: "(str.contains " + arg(0).S + " " + arg(1).S + ")", Sort: sBool, Ty: boolT}
	case "indexOf":
		from := "0"
		if len(n.Args) > 2 {
			from = arg(2).S
		}
		return TV{S: "(str.indexof " + arg(0).S + " " + arg(1).S + " " + from + ")", Sort: sInt, Ty: intT}
	case "substr":
		return TV{S: "(str.substr " + arg(0).S + " " + arg(1).S + " " + arg(2).S + ")", Sort: sString, Ty: strT}
	case "concat":
		return TV{S: "(str.++ " + arg(0).S + " " + arg(1).S + ")", Sort: sString, Ty: strT}
	case "replaceAll":
		return TV{S: "(str.replace_all " + arg(0).S + " " + arg(1).S + " " + arg(2).S + ")", Sort: sString, Ty: strT}
	case "fromCode":
		return TV{S: "(str.from_code " + arg(0).S + ")", Sort: sString, Ty: strT}
	case "toCode":
		return TV{S: "(str.to_code " + arg(0).S + ")", Sort: sInt, Ty: intT}
	case "isNaN":
		return TV{S: "(fp.isNaN " + arg(0).S + ")", Sort: sBool, Ty: boolT}
	case "isInf":
		return TV{S: "(fp.isInfinite " + arg(0).S + ")", Sort: sBool, Ty: boolT}
	case "isZero":
		return TV{S: "(fp.isZero " + arg(0).S + ")", Sort: sBool, Ty: boolT}
	case "float":
		v := arg(0)
		if v.Sort == sF64 {
			return v
		}
		return TV{S: "((_ to_fp 11 53) RNE (to_real " + v.S + "))", Sort: sF64, Ty: types.Typ[types.Float64]}
	case "bytes":
		// content of a byte slice as a byte string
		v := arg(0)
		comp, _ := vc.elemComp(types.Typ[types.Uint8])
		return TV{S: vc.bytesOf(vc.cur(e.st, comp), v.S), Sort: sString, Ty: strT}
	case "unchanged":
		var cs []string
		for _, a := range n.Args {
			for _, comp := range e.locComps(a) {
				cs = append(cs, eq(vc.cur(e.st, comp), vc.cur(e.old, comp)))
			}
		}
		return TV{S: and(cs...), Sort: sBool, Ty: boolT}
	case "sameAt":
		// sameAt(<location spec>, r): the components named by the specification hold at reference
		// r what they held in the old state
		if len(n.Args) == 2 {
			r := arg(1)
			var cs []string
			for _, comp := range e.locComps(n.Args[0]) {
				cs = append(cs, eq(sel(vc.cur(e.st, comp), r.S), sel(vc.cur(e.old, comp), r.S)))
			}
			return TV{S: and(cs...), Sort: sBool, Ty: boolT}
		}
		e.fail("sameAt(<location spec>, r)")
		return TV{}
	case "unchangedAt":
		// unchangedAt(p.f): the single location is unchanged
		var cs []string
		for _, a := range n.Args {
			c2 := e.child()
			c2.st = e.old
			nw, od := e.tr(a), c2.tr(a)
			cs = append(cs, eq(nw.S, od.S))
		}
		return TV{S: and(cs...), Sort: sBool, Ty: boolT}
	case "keys", "keysPrefix":
		xs := arg(0)
		sl, ok := xs.Ty.Underlying().(*types.Slice)
		if !ok {
			e.fail("keys() of non-slice")
		}
		comp, es := vc.elemComp(sl.Elem())
		n := "(sl-len " + xs.S + ")"
		if id.Name == "keysPrefix" {
			n = arg(1).S
		}
		return TV{S: vc.keysOf(es, sel(vc.cur(e.st, comp), "(sl-arr "+xs.S+")"), n), Sort: arraySort(es, sBool)}
	case "seenset":
		if e.seenComp == "" {
			e.fail("seenset() outside a map-range loop")
		}
		return TV{S: vc.cur(e.st, e.seenComp), Sort: vc.compSort[e.seenComp]}
	case "runes":
		v := arg(0)
		t := vc.runePrefix(v.S, "(str.len "+v.S+")")
		if !strings.Contains(v.S, "q$") {
			vc.emit(and("(<= 0 "+t+")", "(<= "+t+" (str.len "+v.S+"))"))
		}
		return TV{S: t, Sort: sInt, Ty: intT}
	case "runesPrefix":
		return TV{S: vc.runePrefix(arg(0).S, arg(1).S), Sort: sInt, Ty: intT}
	case "cast":
		// cast(x, type T): reinterpret a reference (ghost `ref` values) as a typed pointer
		v := arg(0)
		tl, ok := n.Args[1].(*ETypeLit)
		if !ok {
			e.fail("cast(x, type T)")
		}
		t, sortS := e.resolveType(tl.Ty)
		if sortS != v.Sort {
			e.fail("cast between sorts %s and %s", v.Sort, sortS)
		}
		return TV{S: v.S, Sort: sortS, Ty: t}
	case "same":
		// structural (bit-level for floats) equality
		a, b := arg(0), arg(1)
		a, b = e.unify(a, b)
		return TV{S: eq(a.S, b.S), Sort: sBool, Ty: boolT}
	case "store":
		a, k, v := arg(0), arg(1), arg(2)
		if v.Sort == "nil" {
			_, vs := arrayParts(a.Sort)
			v = TV{S: vc.enc.zeroOfSort(vs, nil), Sort: vs}
		}
		return TV{S: sto(a.S, k.S, v.S), Sort: a.Sort}
	case "ptr":
		// ptr(x): reinterpret as reference (for ghost maps keyed by ref)
		v := arg(0)
		if v.Sort == sIface {
			return TV{S: "(if-data " + v.S + ")", Sort: sInt}
		}
		if v.Sort == sSlice {
			// the backing array of a slice
			return TV{S: "(sl-arr " + v.S + ")", Sort: sInt}
		}
		return TV{S: v.S, Sort: sInt}
	case "emb":
		// emb(p, Field): address of an embedded struct field
		p := arg(0)
		fid, ok := n.Args[1].(*EIdent)
		if !ok {
			e.fail("emb(p, Field)")
		}
		return e.fieldOf(p, fid.Name)
	case "zero":
		// zero(type T)
		tl, ok := n.Args[0].(*ETypeLit)
		if !ok {
			e.fail("zero(type T)")
		}
		t, sort := e.resolveType(tl.Ty)
		return TV{S: vc.enc.zeroOfSort(sort, t), Sort: sort, Ty: t}
	}
	sd, ok := vc.prog.cs.Specs[id.Name]
	if !ok {
		e.fail("unknown function %s", id.Name)
	}
	if len(n.Args) != len(sd.Params) {
		e.fail("%s: expected %d arguments, got %d", sd.Name, len(sd.Params), len(n.Args))
	}
	// environment of the spec's own package for type resolution
	se := e.child()
	if sd.Pkg != "" {
		if pk := vc.prog.byPath[sd.Pkg]; pk != nil {
			se.pkg = pk.Types
		}
	}
	var args []TV
	var sorts []string
	for i, a := range n.Args {
		v := e.tr(a)
		pty, psort := se.resolveType(sd.Params[i].Ty)
		if v.Sort == "nil" {
			v = TV{S: vc.enc.zeroOfSort(psort, pty), Sort: psort, Ty: pty}
		}
		if v.Sort != psort {
			if psort == sIface && v.Ty != nil {
				v = e.toIface(v)
			} else if psort == sF64 && v.Sort == sInt && isLiteralInt(v.S) {
				v = TV{S: "((_ to_fp 11 53) RNE " + v.S + ".0)", Sort: sF64, Ty: pty}
			} else {
				e.fail("%s: argument %d has sort %s, expected %s", sd.Name, i, v.Sort, psort)
			}
		}
		if pty != nil {
			v.Ty = pty
		}
		args = append(args, v)
		sorts = append(sorts, psort)
	}
	rty, rsort := se.resolveType(sd.Ret)
	vc.enc.usedSpecs[sd.Name] = true
	if sd.Body != nil && sd.Opaque {
		// opaque: an uninterpreted symbol plus its definition as a quantified axiom. The symbol
		// is indexed by the body translated against the old-region bases of the heap; an extra
		// "era" argument is 0 for arguments that existed at function entry (State.base).
		var binders, pnames []string
		for i := range sd.Params {
			pn := fmt.Sprintf("op$%s$p%d", sd.Name, i)
			binders = append(binders, "("+pn+" "+sorts[i]+")")
			pnames = append(pnames, pn)
		}
		trBody := func(st *State) string {
			be := &Env{vc: vc, vars: map[string]Val{}, bound: map[string]TV{}, st: st, old: e.old, results: e.results, seenComp: e.seenComp, pkg: se.pkg, depth: e.depth + 1, self: e.self}
			for i, p := range sd.Params {
				pty, _ := se.resolveType(p.Ty)
				be.bound[p.Name] = TV{S: pnames[i], Sort: sorts[i], Ty: pty}
			}
			saved := vc.stream
			vc.stream = nil
			body := be.tr(sd.Body)
			side := vc.stream
			vc.stream = saved
			for _, l := range side {
				if !strings.Contains(l, "op$"+sd.Name+"$p") {
					vc.stream = append(vc.stream, l)
				}
			}
			if body.Sort == "nil" {
				return vc.enc.zeroOfSort(rsort, rty)
			}
			return body.S
		}
		rebased := e.st.clone()
		for k := range e.st.comp {
			rebased.comp[k] = vc.curBase(e.st, k)
		}
		bodyBase := trBody(rebased)
		bodyCur := trBody(e.st)
		h := sha1.Sum([]byte(normBound(bodyBase)))
		sym := fmt.Sprintf("op$%s$%x", sd.Name, h[:4])
		psorts := append(append([]string{}, sorts...), sInt)
		app := func(era string) string {
			return "(" + sym + " " + strings.Join(append(append([]string{}, pnames...), era), " ") + ")"
		}
		if !vc.enc.declared[sym] {
			vc.enc.declFun(sym, psorts, rsort)
			if len(binders) > 0 {
				vc.enc.header = append(vc.enc.header, "(assert (forall ("+strings.Join(binders, " ")+") (! (= "+app("0")+" "+bodyBase+") :pattern ("+app("0")+"))))")
			} else {
				vc.enc.header = append(vc.enc.header, "(assert (= "+app("0")+" "+bodyBase+"))")
			}
		}
		era := "0"
		if normBound(bodyCur) != normBound(bodyBase) {
			hc := sha1.Sum([]byte(normBound(bodyCur)))
			n := uint64(hc[0])<<24 | uint64(hc[1])<<16 | uint64(hc[2])<<8 | uint64(hc[3])
			k := fmt.Sprint(n + 1)
			key := sym + "@" + k
			if !vc.enc.declared[key] {
				vc.enc.declared[key] = true
				if len(binders) > 0 {
					vc.enc.header = append(vc.enc.header, "(assert (forall ("+strings.Join(binders, " ")+") (! (= "+app(k)+" "+bodyCur+") :pattern ("+app(k)+"))))")
				} else {
					vc.enc.header = append(vc.enc.header, "(assert (= "+app(k)+" "+bodyCur+"))")
				}
			}
			a0 := vc.cur(vc.entry, "alloc")
			var old []string
			for _, a := range args {
				switch a.Sort {
				case sInt:
					if a.Ty != nil {
						switch a.Ty.Underlying().(type) {
						case *types.Pointer, *types.Map, *types.Signature, *types.Chan:
							old = append(old, "(<= "+a.S+" "+a0+")")
						}
					}
				case sIface:
					old = append(old, vc.ifaceOld(a.S, a0))
				case sSlice:
					old = append(old, "(<= (sl-arr "+a.S+") "+a0+")")
				}
			}
			era = ite(and(old...), "0", k)
		}
		var as []string
		for _, a := range args {
			as = append(as, a.S)
		}
		as = append(as, era)
		return TV{S: "(" + sym + " " + strings.Join(as, " ") + ")", Sort: rsort, Ty: rty}
	}
	if sd.Body != nil {
		if e.depth > 40 {
			e.fail("spec %s: expansion too deep (recursive specs must be uninterpreted)", sd.Name)
		}
		be := &Env{vc: vc, vars: map[string]Val{}, bound: map[string]TV{}, st: e.st, old: e.old, results: e.results, seenComp: e.seenComp, pkg: se.pkg, depth: e.depth + 1, self: e.self}
		for i, p := range sd.Params {
			be.bound[p.Name] = args[i]
		}
		r := be.tr(sd.Body)
		if r.Sort == "nil" {
			r = TV{S: vc.enc.zeroOfSort(rsort, rty), Sort: rsort, Ty: rty}
		}
		if r.Sort != rsort {
			e.fail("spec %s: body has sort %s, declared %s", sd.Name, r.Sort, rsort)
		}
		if rty != nil {
			r.Ty = rty
		}
		return r
	}
	// uninterpreted
	name := "spec$" + sd.Name
	var as []string
	for _, a := range args {
		as = append(as, a.S)
	}
	if sd.HeapDep {
		baseH, curH := e.heapVersion(sd, se)
		name += "$" + baseH
		sorts = append(append([]string{}, sorts...), sInt)
		as = append(as, e.eraTerm(args, baseH, curH))
	}
	vc.enc.declFun(name, sorts, rsort)
	s := name
	if len(as) > 0 {
		s = "(" + name + " " + strings.Join(as, " ") + ")"
	}
	return TV{S: s, Sort: rsort, Ty: rty}
}

// heapVersion identifies the versions of the components a heap-dependent uninterpreted
// spec function reads: the old-region bases (see State.base) and the current versions.
func (e *Env) heapVersion(sd *SpecDecl, se *Env) (base, cur string) {
	vc := e.vc
	var bparts, cparts []string
	if sd.Reads == nil {
		for _, k := range sortedKeys(e.st.ep) {
			bparts = append(bparts, fmt.Sprintf("%s=e%d", k, e.st.ep[k]))
		}
		for _, k := range sortedKeys(e.st.comp) {
			if k == "alloc" || strings.HasPrefix(k, "Seen$") || strings.HasPrefix(k, "Pos$") {
				continue
			}
			bparts = append(bparts, k+"="+vc.curBase(e.st, k))
			cparts = append(cparts, k+"="+e.st.comp[k])
		}
	} else {
		for _, r := range sd.Reads {
			for _, comp := range se.compsOfLocSpec(r) {
				bparts = append(bparts, comp+"="+vc.curBase(e.st, comp))
				cparts = append(cparts, comp+"="+vc.cur(e.st, comp))
			}
		}
	}
	sort.Strings(bparts)
	sort.Strings(cparts)
	hb := sha1.Sum([]byte(strings.Join(bparts, ";")))
	hc := sha1.Sum([]byte(strings.Join(cparts, ";")))
	base = fmt.Sprintf("%x", hb[:4])
	cur = fmt.Sprintf("%x", hc[:4])
	if strings.Join(bparts, ";") == strings.Join(cparts, ";") {
		cur = ""
	}
	return
}

// eraTerm: 0 when every reference among the arguments denotes an object that existed at
// function entry (the application then only depends on the old region, whose version is in
// the symbol's name); otherwise a number identifying the current versions.
func (e *Env) eraTerm(args []TV, baseH, curH string) string {
	if curH == "" {
		return "0"
	}
	vc := e.vc
	a0 := vc.cur(vc.entry, "alloc")
	var old []string
	for _, a := range args {
		switch a.Sort {
		case sInt:
			if a.Ty != nil {
				switch a.Ty.Underlying().(type) {
				case *types.Pointer, *types.Map, *types.Signature, *types.Chan:
					old = append(old, "(<= "+a.S+" "+a0+")")
				}
			}
		case sIface:
			old = append(old, vc.ifaceOld(a.S, a0))
		case sSlice:
			old = append(old, "(<= (sl-arr "+a.S+") "+a0+")")
		}
	}
	n, _ := strconv.ParseUint(curH, 16, 64)
	return ite(and(old...), "0", fmt.Sprint(n+1))
}

// compsOfLocSpec: "Type.field", "Type.*", ghost name, "Elem[T]", "Map[K]V".
func (e *Env) compsOfLocSpec(loc string) []string {
	vc := e.vc
	if g, ok := vc.prog.cs.Ghosts[loc]; ok {
		c, _, _ := e.ghostComp(g)
		return []string{c}
	}
	if strings.HasPrefix(loc, "*") {
		// cells holding a value of this (non-struct) type
		te, err := parseTypeString(loc[1:])
		if err == nil {
			if t, _ := e.resolveType(te); t != nil {
				if _, isStruct := t.Underlying().(*types.Struct); isStruct {
					return vc.compsOfType(t)
				}
				c, _ := vc.cellComp(t)
				return []string{c}
			}
		}
	}
	if strings.HasPrefix(loc, "map[") {
		te, err := parseTypeString(loc)
		if err == nil {
			if t, _ := e.resolveType(te); t != nil {
				if mt, ok := t.Underlying().(*types.Map); ok {
					mh, mv, _, _ := vc.mapComps(mt)
					return []string{mh, mv, mlOf(mh)}
				}
			}
		}
	}
	if strings.HasPrefix(loc, "[]") {
		// elements of every slice/array of this element type
		te, err := parseTypeString(loc[2:])
		if err == nil {
			if t, _ := e.resolveType(te); t != nil {
				if _, isStruct := t.Underlying().(*types.Struct); isStruct {
					return vc.compsOfType(t)
				}
				c, _ := vc.elemComp(t)
				return []string{c}
			}
		}
	}
	// a named map or slice type (http.Header, url.Values): the components of its underlying type
	if te, err := parseTypeString(loc); err == nil {
		if t := e.tryResolveType(te); t != nil {
			switch u := t.Underlying().(type) {
			case *types.Map:
				mh, mv, _, _ := vc.mapComps(u)
				return []string{mh, mv, mlOf(mh)}
			case *types.Slice:
				if _, isStruct := u.Elem().Underlying().(*types.Struct); !isStruct {
					c, _ := vc.elemComp(u.Elem())
					return []string{c}
				}
			}
		}
	}
	if k := strings.LastIndex(loc, "."); k > 0 {
		tname, fname := loc[:k], loc[k+1:]
		te, err := parseTypeString(tname)
		if err == nil {
			t, _ := e.resolveType(te)
			if t != nil {
				if stt, ok := t.Underlying().(*types.Struct); ok {
					if fname == "*" {
						return vc.compsOfType(t)
					}
					for i := 0; i < stt.NumFields(); i++ {
						if stt.Field(i).Name() == fname {
							if _, nested := stt.Field(i).Type().Underlying().(*types.Struct); nested {
								return vc.compsOfType(stt.Field(i).Type())
							}
							c, _, _ := vc.fieldComp(t, i)
							return []string{c}
						}
					}
				}
			}
		}
	}
	e.fail("bad location spec %q", loc)
	return nil
}

func (e *Env) tryResolveType(te TypeExpr) (t types.Type) {
	defer func() {
		if r := recover(); r != nil {
			if _, ok := r.(unsupportedErr); ok {
				t = nil
				return
			}
			panic(r)
		}
	}()
	t, _ = e.resolveType(te)
	return t
}

// locComps: components named by an expression used as a location (unchanged(...)).
func (e *Env) locComps(x Expr) []string {
	if sl, ok := x.(*EStr); ok {
		// a location specification that is not an expression (map[string]any, []any)
		return e.compsOfLocSpec(sl.Val)
	}
	if id, ok := x.(*EIdent); ok {
		if g, ok := e.vc.prog.cs.Ghosts[id.Name]; ok {
			c, _, _ := e.ghostComp(g)
			return []string{c}
		}
	}
	return e.compsOfLocSpec(x.String())
}

var _ = constant.MakeBool

var reBoundName = regexp.MustCompile(`(q\$[A-Za-z0-9_$]*|qk|qi|qs\$[A-Za-z0-9_]*)!\d+`)

// normBound removes the per-translation numbering of bound variables so that two translations
// of the same formula compare equal.
func normBound(s string) string { return reBoundName.ReplaceAllString(s, "$1") }

// ifaceOld: the interface value carries nothing allocated after function entry: a reference
// at or below the entry allocation counter, or a boxed scalar; a boxed slice must itself
// point at an old backing array.
func (vc *FnVC) ifaceOld(v, a0 string) string {
	vc.enc.declFun("slicetag", []string{sInt}, sBool)
	vc.enc.declFun("box$Slice", []string{sSlice}, sInt)
	vc.enc.declFun("unbox$Slice", []string{sInt}, sSlice)
	vc.usesSliceTag = true
	return and("(<= (if-data "+v+") "+a0+")", implies("(slicetag (if-tag "+v+"))", "(<= (sl-arr (unbox$Slice (if-data "+v+"))) "+a0+")"))
}
