package main

import (
	"strings"
	"sync"
)

// Cone-of-influence slicing of a verification condition. Every line of the assumption stream is
// an assumption, so leaving lines out can only make the goal harder to prove: `unsat` on a slice
// is a valid discharge. The passive form makes the slice cheap to compute: a line `(= c t)` (or
// the merge form `(=> edge (= c t))`) that introduces constant c is needed only if c is.
type sliceIndex struct {
	once    sync.Once
	hdrTok  [][]string // tokens (declared symbols) of each header assert; nil for declarations
	tok     [][]string
	defSym  []string // the constant a stream line defines ("" for facts)
	hdrDecl []bool
}

func tokenize(line string, declared map[string]bool) []string {
	var out []string
	seen := map[string]bool{}
	i := 0
	n := len(line)
	for i < n {
		c := line[i]
		switch {
		case c == '"':
			i++
			for i < n {
				if line[i] == '"' {
					if i+1 < n && line[i+1] == '"' {
						i += 2
						continue
					}
					break
				}
				i++
			}
			i++
		case c == ' ' || c == '(' || c == ')' || c == '\n' || c == '\t':
			i++
		default:
			j := i
			for j < n && line[j] != ' ' && line[j] != '(' && line[j] != ')' && line[j] != '\n' && line[j] != '\t' {
				j++
			}
			t := line[i:j]
			if declared[t] && !seen[t] {
				seen[t] = true
				out = append(out, t)
			}
			i = j
		}
	}
	return out
}

func (vc *FnVC) sliceIdx() *sliceIndex {
	if vc.slice == nil {
		vc.slice = &sliceIndex{}
	}
	return vc.slice
}

// build indexes the first n stream lines (n = the largest prefix any obligation uses).
func (si *sliceIndex) build(vc *FnVC) {
	decl := vc.enc.declared
	si.hdrTok = make([][]string, len(vc.enc.header))
	si.hdrDecl = make([]bool, len(vc.enc.header))
	for i, l := range vc.enc.header {
		if strings.HasPrefix(l, "(assert") {
			si.hdrTok[i] = tokenize(l, decl)
		} else {
			si.hdrDecl[i] = true
		}
	}
	si.tok = make([][]string, len(vc.stream))
	si.defSym = make([]string, len(vc.stream))
	first := map[string]int{}
	for i, l := range vc.stream {
		si.tok[i] = tokenize(l, decl)
		for _, t := range si.tok[i] {
			if _, ok := first[t]; !ok {
				first[t] = i
			}
		}
	}
	// symbols mentioned by header assertions are not "introduced" by a stream line
	inHdr := map[string]bool{}
	for _, ts := range si.hdrTok {
		for _, t := range ts {
			inHdr[t] = true
		}
	}
	for i, l := range vc.stream {
		const p1 = "(assert (= "
		if strings.HasPrefix(l, p1) {
			rest := l[len(p1):]
			k := strings.IndexAny(rest, " )")
			if k > 0 && rest[0] != '(' {
				s := rest[:k]
				if decl[s] && first[s] == i && !inHdr[s] {
					// the defined constant must not occur in its own definition
					cnt := 0
					for _, t := range si.tok[i] {
						if t == s {
							cnt++
						}
					}
					if strings.Count(l, s) == 1 || !strings.Contains(rest[k:], " "+s+")") && !strings.Contains(rest[k:], " "+s+" ") {
						si.defSym[i] = s
					}
				}
			}
			continue
		}
		const p2 = "(assert (=> "
		if strings.HasPrefix(l, p2) && strings.HasSuffix(l, ")))") {
			k := strings.LastIndex(l, " (= ")
			if k < 0 {
				continue
			}
			rest := l[k+4 : len(l)-3]
			f := strings.Fields(rest)
			if len(f) != 2 || strings.ContainsAny(rest, "()") {
				continue
			}
			s := f[0]
			if !decl[s] || inHdr[s] {
				continue
			}
			if first[s] == i || (first[s] < i && si.defSym[first[s]] == s && strings.HasPrefix(vc.stream[first[s]], p2)) {
				// the edge condition must not mention the constant
				if !strings.Contains(l[:k], s) {
					si.defSym[i] = s
				}
			}
		}
	}
}

func isControlSym(s string) bool {
	return strings.HasPrefix(s, "reach$") || strings.HasPrefix(s, "back$")
}

// smtSliced renders the obligation with only the lines in the cone of influence of the goal.
// withFacts=false keeps definitions only.
func (o *Obligation) smtSliced(withFacts bool) string {
	return o.smtSlicedDepth(withFacts, 0)
}

// smtSlicedDepth: factDepth > 0 limits the facts to those within that many steps of the goal's
// definitional cone (a fact is one step away when it mentions a symbol of the cone; its other
// symbols, closed under definitions, are the next cone). 0 = fixpoint.
func (o *Obligation) smtSlicedDepth(withFacts bool, factDepth int) string {
	vc := o.vc
	si := vc.sliceIdx()
	si.once.Do(func() { si.build(vc) })
	if o.Prefix > len(si.tok) {
		return ""
	}
	rel := map[string]bool{}
	for _, t := range tokenize(o.Goal, vc.enc.declared) {
		rel[t] = true
	}
	inc := make([]bool, o.Prefix)
	hinc := make([]bool, len(si.hdrTok))
	addAll := func(ts []string) bool {
		ch := false
		for _, t := range ts {
			if !rel[t] {
				rel[t] = true
				ch = true
			}
		}
		return ch
	}
	touches := func(ts []string) bool {
		for _, t := range ts {
			if rel[t] && !isControlSym(t) {
				return true
			}
		}
		return false
	}
	if withFacts && factDepth > 0 {
		defClose := func() {
			for ch := true; ch; {
				ch = false
				for i := o.Prefix - 1; i >= 0; i-- {
					if !inc[i] && si.defSym[i] != "" && rel[si.defSym[i]] {
						inc[i] = true
						addAll(si.tok[i])
						ch = true
					}
				}
			}
		}
		defClose()
		for d := 0; d < factDepth; d++ {
			var pick []int
			var hpick []int
			for i := 0; i < o.Prefix; i++ {
				if !inc[i] && si.defSym[i] == "" && touches(si.tok[i]) {
					pick = append(pick, i)
				}
			}
			for i, ts := range si.hdrTok {
				if !hinc[i] && !si.hdrDecl[i] && touches(ts) {
					hpick = append(hpick, i)
				}
			}
			for _, i := range pick {
				inc[i] = true
				addAll(si.tok[i])
			}
			for _, i := range hpick {
				hinc[i] = true
				addAll(si.hdrTok[i])
			}
			defClose()
		}
	} else {
	for pass := 0; pass < 6; pass++ {
		changed := false
		for i := o.Prefix - 1; i >= 0; i-- {
			if inc[i] {
				continue
			}
			if s := si.defSym[i]; s != "" {
				if rel[s] {
					inc[i] = true
					addAll(si.tok[i])
					changed = true
				}
				continue
			}
			if withFacts && touches(si.tok[i]) {
				inc[i] = true
				if addAll(si.tok[i]) {
					changed = true
				}
			}
		}
		if withFacts {
			for i, ts := range si.hdrTok {
				if hinc[i] || si.hdrDecl[i] {
					continue
				}
				if touches(ts) {
					hinc[i] = true
					if addAll(ts) {
						changed = true
					}
				}
			}
		}
		if !changed {
			break
		}
	}
	}
	var sb strings.Builder
	sb.WriteString("(set-logic ALL)\n")
	for i, l := range vc.enc.header {
		if si.hdrDecl[i] || hinc[i] {
			sb.WriteString(l)
			sb.WriteByte('\n')
		}
	}
	for i := 0; i < o.Prefix; i++ {
		if inc[i] {
			sb.WriteString(vc.stream[i])
			sb.WriteByte('\n')
		}
	}
	sb.WriteString("(assert (not " + o.Goal + "))\n(check-sat)\n")
	return sb.String()
}
