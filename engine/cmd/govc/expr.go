package main

// Contract expression language: lexer, AST and Pratt parser.
// Grammar: DESIGN.md appendix E.

import (
	"fmt"
	"strings"
	"unicode"
)

type tokKind int

const (
	tEOF tokKind = iota
	tIdent
	tInt
	tFloat
	tString
	tChar
	tOp
)

type tok struct {
	kind tokKind
	text string
	pos  int
}

type lexer struct {
	src  string
	toks []tok
}

var ops3 = []string{"<==>", "==>", "...", "&&", "||", "==", "!=", "<=", ">=", "::", ":=", "<<", ">>"}

func lex(src string) ([]tok, error) {
	var toks []tok
	i := 0
	for i < len(src) {
		c := src[i]
		if c == ' ' || c == '\t' || c == '\n' || c == '\r' {
			i++
			continue
		}
		if c == '/' && i+1 < len(src) && src[i+1] == '/' {
			// comment to end of line
			for i < len(src) && src[i] != '\n' {
				i++
			}
			continue
		}
		start := i
		if unicode.IsLetter(rune(c)) || c == '_' || c == '#' {
			i++
			for i < len(src) && (unicode.IsLetter(rune(src[i])) || unicode.IsDigit(rune(src[i])) || src[i] == '_' || src[i] == '$') {
				i++
			}
			toks = append(toks, tok{tIdent, src[start:i], start})
			continue
		}
		if unicode.IsDigit(rune(c)) {
			isFloat := false
			if c == '0' && i+1 < len(src) && (src[i+1] == 'x' || src[i+1] == 'X') {
				i += 2
				for i < len(src) && strings.ContainsRune("0123456789abcdefABCDEF_", rune(src[i])) {
					i++
				}
			} else {
				for i < len(src) && (unicode.IsDigit(rune(src[i])) || src[i] == '_') {
					i++
				}
				if i+1 < len(src) && src[i] == '.' && unicode.IsDigit(rune(src[i+1])) {
					isFloat = true
					i++
					for i < len(src) && unicode.IsDigit(rune(src[i])) {
						i++
					}
				}
				if i < len(src) && (src[i] == 'e' || src[i] == 'E') {
					j := i + 1
					if j < len(src) && (src[j] == '+' || src[j] == '-') {
						j++
					}
					if j < len(src) && unicode.IsDigit(rune(src[j])) {
						isFloat = true
						i = j
						for i < len(src) && unicode.IsDigit(rune(src[i])) {
							i++
						}
					}
				}
			}
			k := tInt
			if isFloat {
				k = tFloat
			}
			toks = append(toks, tok{k, strings.ReplaceAll(src[start:i], "_", ""), start})
			continue
		}
		if c == '"' {
			i++
			var sb strings.Builder
			for i < len(src) && src[i] != '"' {
				if src[i] == '\\' && i+1 < len(src) {
					i++
					switch src[i] {
					case 'n':
						sb.WriteByte('\n')
					case 't':
						sb.WriteByte('\t')
					case 'r':
						sb.WriteByte('\r')
					case '\\':
						sb.WriteByte('\\')
					case '"':
						sb.WriteByte('"')
					default:
						return nil, fmt.Errorf("bad escape \\%c at %d", src[i], i)
					}
					i++
					continue
				}
				sb.WriteByte(src[i])
				i++
			}
			if i >= len(src) {
				return nil, fmt.Errorf("unterminated string at %d", start)
			}
			i++
			toks = append(toks, tok{tString, sb.String(), start})
			continue
		}
		if c == '\'' {
			// char literal
			i++
			var ch byte
			if i < len(src) && src[i] == '\\' && i+1 < len(src) {
				i++
				switch src[i] {
				case 'n':
					ch = '\n'
				case 't':
					ch = '\t'
				case '\\':
					ch = '\\'
				case '\'':
					ch = '\''
				default:
					return nil, fmt.Errorf("bad char escape at %d", i)
				}
				i++
			} else if i < len(src) {
				ch = src[i]
				i++
			}
			if i >= len(src) || src[i] != '\'' {
				return nil, fmt.Errorf("bad char literal at %d", start)
			}
			i++
			toks = append(toks, tok{tChar, string(ch), start})
			continue
		}
		matched := false
		for _, op := range ops3 {
			if strings.HasPrefix(src[i:], op) {
				toks = append(toks, tok{tOp, op, start})
				i += len(op)
				matched = true
				break
			}
		}
		if matched {
			continue
		}
		if strings.ContainsRune("+-*/%<>!()[]{}.,:?&|=", rune(c)) {
			toks = append(toks, tok{tOp, string(c), start})
			i++
			continue
		}
		return nil, fmt.Errorf("unexpected character %q at %d in %q", c, i, src)
	}
	toks = append(toks, tok{tEOF, "", len(src)})
	return toks, nil
}

// ---- AST ----

type Expr interface{ String() string }

type (
	EIdent struct{ Name string }
	EInt   struct{ Val string }
	EFloat struct{ Val string }
	EStr   struct{ Val string }
	EChar  struct{ Val byte }
	EBin   struct {
		Op   string
		L, R Expr
	}
	EUn struct {
		Op string
		X  Expr
	}
	ESel struct {
		X    Expr
		Name string
	}
	EIndex struct{ X, I Expr }
	ESlice struct {
		X      Expr
		Lo, Hi Expr // may be nil
	}
	ECall struct {
		Fun  Expr
		Args []Expr
	}
	ECond   struct{ C, A, B Expr }
	EQuant  struct {
		Forall bool
		Vars   []QVar
		Body   Expr
	}
	EOld    struct{ X Expr }
	ELet    struct {
		Name string
		Val  Expr
		Body Expr
	}
	ETypeAssert struct {
		X  Expr
		Ty TypeExpr
	}
	ETypeLit struct{ Ty TypeExpr } // a type used as an expression (typeof(x) == T)
)

type QVar struct {
	Name string
	Ty   TypeExpr
}

// TypeExpr is the syntax of a type in a contract.
type TypeExpr struct {
	Kind string // "name", "ptr", "slice", "map", "set", "seq"
	Name string // for "name": possibly qualified pkg.Name
	Elem *TypeExpr
	Key  *TypeExpr
}

func (t TypeExpr) String() string {
	switch t.Kind {
	case "name":
		return t.Name
	case "ptr":
		return "*" + t.Elem.String()
	case "slice":
		return "[]" + t.Elem.String()
	case "map":
		return "map[" + t.Key.String() + "]" + t.Elem.String()
	case "set":
		return "set[" + t.Elem.String() + "]"
	}
	return "?"
}

func (e *EIdent) String() string { return e.Name }
func (e *EInt) String() string   { return e.Val }
func (e *EFloat) String() string { return e.Val }
func (e *EStr) String() string   { return fmt.Sprintf("%q", e.Val) }
func (e *EChar) String() string  { return fmt.Sprintf("%q", rune(e.Val)) }
func (e *EBin) String() string   { return "(" + e.L.String() + " " + e.Op + " " + e.R.String() + ")" }
func (e *EUn) String() string    { return e.Op + e.X.String() }
func (e *ESel) String() string   { return e.X.String() + "." + e.Name }
func (e *EIndex) String() string { return e.X.String() + "[" + e.I.String() + "]" }
func (e *ESlice) String() string {
	lo, hi := "", ""
	if e.Lo != nil {
		lo = e.Lo.String()
	}
	if e.Hi != nil {
		hi = e.Hi.String()
	}
	return e.X.String() + "[" + lo + ":" + hi + "]"
}
func (e *ECall) String() string {
	var as []string
	for _, a := range e.Args {
		as = append(as, a.String())
	}
	return e.Fun.String() + "(" + strings.Join(as, ", ") + ")"
}
func (e *ECond) String() string {
	return "(" + e.C.String() + " ? " + e.A.String() + " : " + e.B.String() + ")"
}
func (e *EQuant) String() string {
	q := "exists"
	if e.Forall {
		q = "forall"
	}
	var vs []string
	for _, v := range e.Vars {
		vs = append(vs, v.Name+" "+v.Ty.String())
	}
	return "(" + q + " " + strings.Join(vs, ", ") + " :: " + e.Body.String() + ")"
}
func (e *EOld) String() string { return "old(" + e.X.String() + ")" }
func (e *ELet) String() string {
	return "(let " + e.Name + " := " + e.Val.String() + " in " + e.Body.String() + ")"
}
func (e *ETypeAssert) String() string { return e.X.String() + ".(" + e.Ty.String() + ")" }
func (e *ETypeLit) String() string    { return "type(" + e.Ty.String() + ")" }

// ---- parser ----

type parser struct {
	toks []tok
	p    int
	src  string
}

func parseExpr(src string) (e Expr, err error) {
	toks, err := lex(src)
	if err != nil {
		return nil, err
	}
	ps := &parser{toks: toks, src: src}
	defer func() {
		if r := recover(); r != nil {
			if pe, ok := r.(parseErr); ok {
				err = fmt.Errorf("%s (in %q)", string(pe), src)
				return
			}
			panic(r)
		}
	}()
	e = ps.expr()
	if ps.peek().kind != tEOF {
		ps.fail("unexpected %q", ps.peek().text)
	}
	return e, nil
}

type parseErr string

func (ps *parser) fail(f string, a ...any) {
	panic(parseErr(fmt.Sprintf("parse error at %d: ", ps.peek().pos) + fmt.Sprintf(f, a...)))
}
func (ps *parser) peek() tok { return ps.toks[ps.p] }
func (ps *parser) peekAt(n int) tok {
	if ps.p+n < len(ps.toks) {
		return ps.toks[ps.p+n]
	}
	return ps.toks[len(ps.toks)-1]
}
func (ps *parser) next() tok { t := ps.toks[ps.p]; ps.p++; return t }
func (ps *parser) isOp(s string) bool {
	t := ps.peek()
	return t.kind == tOp && t.text == s
}
func (ps *parser) isIdent(s string) bool {
	t := ps.peek()
	return t.kind == tIdent && t.text == s
}
func (ps *parser) accept(s string) bool {
	if ps.isOp(s) {
		ps.p++
		return true
	}
	return false
}
func (ps *parser) expect(s string) {
	if !ps.accept(s) {
		ps.fail("expected %q, got %q", s, ps.peek().text)
	}
}

func (ps *parser) expr() Expr {
	if ps.isIdent("forall") || ps.isIdent("exists") {
		forall := ps.next().text == "forall"
		var vars []QVar
		for {
			name := ps.next()
			if name.kind != tIdent {
				ps.fail("expected bound variable name")
			}
			ty := ps.typeExpr()
			vars = append(vars, QVar{name.text, ty})
			if !ps.accept(",") {
				break
			}
		}
		ps.expect("::")
		body := ps.expr()
		return &EQuant{forall, vars, body}
	}
	if ps.isIdent("let") {
		ps.next()
		name := ps.next()
		ps.expect(":=")
		val := ps.expr()
		if !ps.isIdent("in") {
			ps.fail("expected 'in'")
		}
		ps.next()
		body := ps.expr()
		return &ELet{name.text, val, body}
	}
	return ps.ternary()
}

func (ps *parser) ternary() Expr {
	c := ps.impl()
	if ps.accept("?") {
		a := ps.expr()
		ps.expect(":")
		b := ps.expr()
		return &ECond{c, a, b}
	}
	return c
}

func (ps *parser) impl() Expr {
	l := ps.or()
	if ps.isOp("==>") || ps.isOp("<==>") {
		op := ps.next().text
		var r Expr
		if ps.isIdent("forall") || ps.isIdent("exists") {
			r = ps.expr()
		} else {
			r = ps.impl()
		}
		return &EBin{op, l, r}
	}
	return l
}

func (ps *parser) or() Expr {
	l := ps.and()
	for ps.isOp("||") {
		ps.next()
		var r Expr
		if ps.isIdent("forall") || ps.isIdent("exists") {
			r = ps.expr()
		} else {
			r = ps.and()
		}
		l = &EBin{"||", l, r}
	}
	return l
}

func (ps *parser) and() Expr {
	l := ps.cmp()
	for ps.isOp("&&") {
		ps.next()
		var r Expr
		if ps.isIdent("forall") || ps.isIdent("exists") {
			r = ps.expr()
		} else {
			r = ps.cmp()
		}
		l = &EBin{"&&", l, r}
	}
	return l
}

func (ps *parser) cmp() Expr {
	l := ps.add()
	for _, op := range []string{"==", "!=", "<=", ">=", "<", ">"} {
		if ps.isOp(op) {
			ps.next()
			r := ps.add()
			return &EBin{op, l, r}
		}
	}
	return l
}

func (ps *parser) add() Expr {
	l := ps.mul()
	for ps.isOp("+") || ps.isOp("-") {
		op := ps.next().text
		r := ps.mul()
		l = &EBin{op, l, r}
	}
	return l
}

func (ps *parser) mul() Expr {
	l := ps.unary()
	for ps.isOp("*") || ps.isOp("/") || ps.isOp("%") {
		op := ps.next().text
		r := ps.unary()
		l = &EBin{op, l, r}
	}
	return l
}

func (ps *parser) unary() Expr {
	if ps.isOp("!") || ps.isOp("-") || ps.isOp("*") || ps.isOp("&") {
		op := ps.next().text
		x := ps.unary()
		return &EUn{op, x}
	}
	return ps.postfix()
}

func (ps *parser) postfix() Expr {
	x := ps.primary()
	for {
		switch {
		case ps.isOp("."):
			ps.next()
			if ps.accept("(") {
				ty := ps.typeExpr()
				ps.expect(")")
				x = &ETypeAssert{x, ty}
				continue
			}
			n := ps.next()
			if n.kind != tIdent && n.kind != tInt {
				ps.fail("expected field name after '.'")
			}
			x = &ESel{x, n.text}
		case ps.isOp("["):
			ps.next()
			var lo, hi Expr
			if ps.isOp(":") {
				ps.next()
				if !ps.isOp("]") {
					hi = ps.expr()
				}
				ps.expect("]")
				x = &ESlice{x, nil, hi}
				continue
			}
			lo = ps.expr()
			if ps.accept(":") {
				if !ps.isOp("]") {
					hi = ps.expr()
				}
				ps.expect("]")
				x = &ESlice{x, lo, hi}
				continue
			}
			ps.expect("]")
			x = &EIndex{x, lo}
		case ps.isOp("("):
			ps.next()
			var args []Expr
			for !ps.isOp(")") {
				args = append(args, ps.argExpr())
				if !ps.accept(",") {
					break
				}
			}
			ps.expect(")")
			x = &ECall{x, args}
		default:
			return x
		}
	}
}

// argExpr parses a call argument: an expression, or a type literal introduced by "type".
func (ps *parser) argExpr() Expr {
	if ps.isIdent("type") {
		ps.next()
		return &ETypeLit{ps.typeExpr()}
	}
	return ps.expr()
}

func (ps *parser) primary() Expr {
	t := ps.next()
	switch t.kind {
	case tIdent:
		if t.text == "old" && ps.isOp("(") {
			ps.next()
			x := ps.expr()
			ps.expect(")")
			return &EOld{x}
		}
		if t.text == "type" {
			return &ETypeLit{ps.typeExpr()}
		}
		return &EIdent{t.text}
	case tInt:
		return &EInt{t.text}
	case tFloat:
		return &EFloat{t.text}
	case tString:
		return &EStr{t.text}
	case tChar:
		return &EChar{t.text[0]}
	case tOp:
		if t.text == "(" {
			x := ps.expr()
			ps.expect(")")
			return x
		}
	}
	ps.p--
	ps.fail("unexpected tok %q", t.text)
	return nil
}

func (ps *parser) typeExpr() TypeExpr {
	if ps.accept("*") {
		e := ps.typeExpr()
		return TypeExpr{Kind: "ptr", Elem: &e}
	}
	if ps.isOp("[") && ps.peekAt(1).kind == tOp && ps.peekAt(1).text == "]" {
		ps.next()
		ps.next()
		e := ps.typeExpr()
		return TypeExpr{Kind: "slice", Elem: &e}
	}
	t := ps.next()
	if t.kind != tIdent {
		ps.fail("expected type, got %q", t.text)
	}
	if t.text == "map" && ps.isOp("[") {
		ps.next()
		k := ps.typeExpr()
		ps.expect("]")
		v := ps.typeExpr()
		return TypeExpr{Kind: "map", Key: &k, Elem: &v}
	}
	if t.text == "set" && ps.isOp("[") {
		ps.next()
		k := ps.typeExpr()
		ps.expect("]")
		return TypeExpr{Kind: "set", Elem: &k}
	}
	name := t.text
	for ps.isOp(".") && ps.peekAt(1).kind == tIdent {
		ps.next()
		name += "." + ps.next().text
	}
	return TypeExpr{Kind: "name", Name: name}
}

// parseTypeString parses a standalone type.
func parseTypeString(src string) (ty TypeExpr, err error) {
	toks, err := lex(src)
	if err != nil {
		return ty, err
	}
	ps := &parser{toks: toks, src: src}
	defer func() {
		if r := recover(); r != nil {
			if pe, ok := r.(parseErr); ok {
				err = fmt.Errorf("%s (in %q)", string(pe), src)
				return
			}
			panic(r)
		}
	}()
	ty = ps.typeExpr()
	if ps.peek().kind != tEOF {
		ps.fail("trailing input after type")
	}
	return ty, nil
}

// ESpecScope evaluates X with type names resolved in the package of a spec declaration.
type ESpecScope struct {
	Spec *SpecDecl
	X    Expr
}

func (e *ESpecScope) String() string { return e.X.String() }

// renameIdents renames free identifiers (shallow: bound variables of the same name inside
// quantifiers/lets shadow as usual because they are renamed consistently too).
func renameIdents(e Expr, ren map[string]string) Expr {
	switch n := e.(type) {
	case *EIdent:
		if r, ok := ren[n.Name]; ok {
			return &EIdent{r}
		}
		return n
	case *EBin:
		return &EBin{n.Op, renameIdents(n.L, ren), renameIdents(n.R, ren)}
	case *EUn:
		return &EUn{n.Op, renameIdents(n.X, ren)}
	case *ESel:
		return &ESel{renameIdents(n.X, ren), n.Name}
	case *EIndex:
		return &EIndex{renameIdents(n.X, ren), renameIdents(n.I, ren)}
	case *ESlice:
		var lo, hi Expr
		if n.Lo != nil {
			lo = renameIdents(n.Lo, ren)
		}
		if n.Hi != nil {
			hi = renameIdents(n.Hi, ren)
		}
		return &ESlice{renameIdents(n.X, ren), lo, hi}
	case *ECall:
		var as []Expr
		for _, a := range n.Args {
			as = append(as, renameIdents(a, ren))
		}
		return &ECall{n.Fun, as}
	case *ECond:
		return &ECond{renameIdents(n.C, ren), renameIdents(n.A, ren), renameIdents(n.B, ren)}
	case *EQuant:
		inner := map[string]string{}
		for k, v := range ren {
			inner[k] = v
		}
		for _, v := range n.Vars {
			delete(inner, v.Name)
		}
		return &EQuant{n.Forall, n.Vars, renameIdents(n.Body, inner)}
	case *EOld:
		return &EOld{renameIdents(n.X, ren)}
	case *ELet:
		inner := map[string]string{}
		for k, v := range ren {
			inner[k] = v
		}
		delete(inner, n.Name)
		return &ELet{n.Name, renameIdents(n.Val, ren), renameIdents(n.Body, inner)}
	case *ETypeAssert:
		return &ETypeAssert{renameIdents(n.X, ren), n.Ty}
	case *ESpecScope:
		return &ESpecScope{n.Spec, renameIdents(n.X, ren)}
	}
	return e
}
