package main

// Label obligations (DESIGN.md 2.7, C19): nothing derived from a `secret` parameter flows into
// SchemaError.Reason (or, for functions declared returns-untainted, into what is returned).
// The flow relation is computed on the SSA of the function under contract: data dependences
// through registers, local memory cells and calls (a call's result depends on its arguments
// unless the callee's contract says `untainted`; fmt verbs %T and lengths carry no value
// text); control dependences are not flows.

import (
	"fmt"
	"go/constant"
	"go/token"
	"go/types"
	"sort"
	"strings"

	"golang.org/x/tools/go/ssa"
)

type taintScan struct {
	vc      *FnVC
	tainted map[ssa.Value]bool
	memTaint map[ssa.Value]bool // allocation roots holding tainted data
}

func allocRoot(v ssa.Value) ssa.Value {
	for i := 0; i < 16; i++ {
		switch x := v.(type) {
		case *ssa.Alloc, *ssa.MakeSlice, *ssa.MakeMap:
			return x
		case *ssa.FieldAddr:
			v = x.X
		case *ssa.IndexAddr:
			v = x.X
		case *ssa.Slice:
			v = x.X
		default:
			return nil
		}
	}
	return nil
}

func (t *taintScan) isT(v ssa.Value) bool { return v != nil && t.tainted[v] }

// formatCarries: for fmt.Sprintf/Errorf with a constant format, which argument positions
// contribute value text (everything except %T verbs).
func formatCarries(c *ssa.CallCommon) (fmtArgs []ssa.Value, carries []bool, ok bool) {
	fn := c.StaticCallee()
	if fn == nil {
		return nil, nil, false
	}
	name := fn.String()
	if name != "fmt.Sprintf" && name != "fmt.Errorf" {
		return nil, nil, false
	}
	k, isConst := c.Args[0].(*ssa.Const)
	if !isConst || k.Value == nil || k.Value.Kind() != constant.String {
		return nil, nil, false
	}
	format := constant.StringVal(k.Value)
	// variadic slice: elements stored into a fresh array
	sl, isSlice := c.Args[1].(*ssa.Slice)
	if !isSlice {
		if kc, isC := c.Args[1].(*ssa.Const); isC && kc.Value == nil {
			return nil, nil, true // no arguments
		}
		return nil, nil, false
	}
	arr, isAlloc := sl.X.(*ssa.Alloc)
	if !isAlloc {
		return nil, nil, false
	}
	n := int(arr.Type().(*types.Pointer).Elem().Underlying().(*types.Array).Len())
	vals := make([]ssa.Value, n)
	for _, ref := range *arr.Referrers() {
		ia, ok := ref.(*ssa.IndexAddr)
		if !ok {
			continue
		}
		idx, isC := ia.Index.(*ssa.Const)
		if !isC {
			return nil, nil, false
		}
		i := int(idx.Int64())
		for _, r2 := range *ia.Referrers() {
			if st, ok := r2.(*ssa.Store); ok && st.Addr == ia && i < n {
				vals[i] = st.Val
			}
		}
	}
	// verbs in order
	var verbs []byte
	for i := 0; i < len(format); i++ {
		if format[i] != '%' {
			continue
		}
		i++
		for i < len(format) && strings.IndexByte("+-# 0123456789.[]*", format[i]) >= 0 {
			i++
		}
		if i < len(format) && format[i] != '%' {
			verbs = append(verbs, format[i])
		}
	}
	carries = make([]bool, n)
	for i := range carries {
		carries[i] = true
		if i < len(verbs) && verbs[i] == 'T' {
			carries[i] = false
		}
	}
	return vals, carries, true
}

func (t *taintScan) run() {
	fn := t.vc.fn
	changed := true
	mark := func(v ssa.Value) {
		if v != nil && !t.tainted[v] {
			t.tainted[v] = true
			changed = true
		}
	}
	for changed {
		changed = false
		for _, b := range fn.Blocks {
			for _, ins := range b.Instrs {
				switch x := ins.(type) {
				case *ssa.Phi:
					for _, e := range x.Edges {
						if t.isT(e) {
							mark(x)
						}
					}
				case *ssa.BinOp:
					switch x.Op {
					case token.EQL, token.NEQ, token.LSS, token.LEQ, token.GTR, token.GEQ:
						// a boolean: no value text
					default:
						if t.isT(x.X) || t.isT(x.Y) {
							mark(x)
						}
					}
				case *ssa.UnOp:
					if x.Op == token.MUL {
						if t.isT(x.X) {
							mark(x)
						}
						if r := allocRoot(x.X); r != nil && t.memTaint[r] {
							mark(x)
						}
					} else if x.Op != token.NOT && t.isT(x.X) {
						mark(x)
					}
				case *ssa.Convert:
					if t.isT(x.X) {
						mark(x)
					}
				case *ssa.ChangeType:
					if t.isT(x.X) {
						mark(x)
					}
				case *ssa.ChangeInterface:
					if t.isT(x.X) {
						mark(x)
					}
				case *ssa.MakeInterface:
					if t.isT(x.X) {
						mark(x)
					}
				case *ssa.TypeAssert:
					if t.isT(x.X) {
						mark(x)
					}
				case *ssa.Extract:
					if nx, isNext := x.Tuple.(*ssa.Next); isNext && !nx.IsString && x.Index == 1 {
						// the key of a map entry: property names are not values (DESIGN.md 4/C19)
						continue
					}
					if t.isT(x.Tuple) {
						// (value, ok) of an assertion / lookup: the ok flag carries no text
						if x.Type().Underlying() != types.Typ[types.Bool].Underlying() {
							mark(x)
						}
					}
				case *ssa.Field:
					if t.isT(x.X) {
						mark(x)
					}
				case *ssa.FieldAddr:
					if t.isT(x.X) {
						mark(x)
					}
				case *ssa.IndexAddr:
					if t.isT(x.X) {
						mark(x)
					}
				case *ssa.Index:
					if t.isT(x.X) {
						mark(x)
					}
				case *ssa.Lookup:
					if t.isT(x.X) {
						mark(x)
					}
				case *ssa.Slice:
					if t.isT(x.X) {
						mark(x)
					}
					if r := allocRoot(x.X); r != nil && t.memTaint[r] {
						mark(x)
					}
				case *ssa.Range:
					if t.isT(x.X) {
						mark(x)
					}
				case *ssa.Next:
					if t.isT(x.Iter) {
						mark(x)
					}
				case *ssa.Store:
					if t.isT(x.Val) {
						if r := allocRoot(x.Addr); r != nil && !t.memTaint[r] {
							t.memTaint[r] = true
							changed = true
						}
					}
				case *ssa.MapUpdate:
					if t.isT(x.Value) || t.isT(x.Key) {
						if r := allocRoot(x.Map); r != nil && !t.memTaint[r] {
							t.memTaint[r] = true
							changed = true
						}
					}
				case *ssa.Call:
					t.call(x, mark)
				}
			}
		}
	}
}

func (t *taintScan) call(x *ssa.Call, mark func(ssa.Value)) {
	c := x.Common()
	if b, ok := c.Value.(*ssa.Builtin); ok {
		switch b.Name() {
		case "len", "cap":
			return // a number
		case "append":
			for _, a := range c.Args {
				if t.isT(a) {
					mark(x)
				}
				if r := allocRoot(a); r != nil && t.memTaint[r] {
					mark(x)
				}
			}
		}
		return
	}
	if vals, carries, ok := formatCarries(c); ok {
		for i, v := range vals {
			if carries[i] && t.isT(v) {
				mark(x)
			}
		}
		return
	}
	// contracts that declare the result independent of the arguments
	for _, fc := range t.vc.calleeContracts(c) {
		if fc.Untainted {
			return
		}
	}
	anyT := t.isT(c.Value)
	for _, a := range c.Args {
		if t.isT(a) {
			anyT = true
		}
		if r := allocRoot(a); r != nil && t.memTaint[r] {
			anyT = true
		}
		// arguments passed by address that the callee fills (errors.As target): tainted inputs
		// may end up in that memory
	}
	if anyT {
		mark(x)
		for _, a := range c.Args {
			if mi, ok := a.(*ssa.MakeInterface); ok {
				if r := allocRoot(mi.X); r != nil {
					t.memTaint[r] = true
				}
			}
			if r := allocRoot(a); r != nil {
				t.memTaint[r] = true
			}
		}
	}
}

// calleeContracts: all contracts that may govern a call site.
func (vc *FnVC) calleeContracts(c *ssa.CallCommon) []*FuncContract {
	var out []*FuncContract
	if c.IsInvoke() {
		cands, generic := vc.invokeCandidates(c)
		for _, cd := range cands {
			out = append(out, cd.fc)
		}
		if generic != nil {
			out = append(out, generic)
		}
		return out
	}
	if fn := c.StaticCallee(); fn != nil {
		if fc := vc.prog.contractOf(fn); fc != nil {
			out = append(out, fc)
		}
		return out
	}
	if fc := vc.funcValueContract(c.Value); fc != nil {
		out = append(out, fc)
	}
	return out
}

// taintObligations: one obligation per sink in the function.
func (vc *FnVC) taintObligations() []*Obligation {
	if vc.fc == nil || len(vc.fc.Secrets) == 0 {
		return nil
	}
	ts := &taintScan{vc: vc, tainted: map[ssa.Value]bool{}, memTaint: map[ssa.Value]bool{}}
	for _, p := range vc.fn.Params {
		for _, s := range vc.fc.Secrets {
			if p.Name() == s {
				ts.tainted[p] = true
			}
		}
	}
	ts.run()
	var out []*Obligation
	n := 0
	add := func(name, src string, pos token.Pos, bad bool, what string) {
		o := &Obligation{Name: vc.shortName() + "/label/" + name, Class: "label", Func: vc.shortName(), Tags: vc.fnTags(), Expect: "unsat", Src: src, Pos: vc.posOf(pos), vc: vc}
		o.Result = &SolveResult{Status: "unsat", Solver: "ssa-flow"}
		if bad {
			o.Result = &SolveResult{Status: "sat", Solver: "ssa-flow", Output: what}
		}
		out = append(out, o)
	}
	for _, b := range vc.fn.Blocks {
		for _, ins := range b.Instrs {
			switch x := ins.(type) {
			case *ssa.Store:
				fa, ok := x.Addr.(*ssa.FieldAddr)
				if !ok {
					continue
				}
				st := fa.X.Type().Underlying().(*types.Pointer).Elem()
				named := namedOf(st)
				if named == nil || named.Obj().Name() != "SchemaError" {
					continue
				}
				f := st.Underlying().(*types.Struct).Field(fa.Field)
				if f.Name() != "Reason" {
					continue
				}
				n++
				add(fmt.Sprintf("secret-in-Reason#%d", n), "no secret parameter flows into SchemaError.Reason", x.Pos(), ts.isT(x.Val), "the reason stored at "+vc.posOf(x.Pos())+" depends on a secret parameter ("+strings.Join(vc.fc.Secrets, ", ")+")")
			case *ssa.Return:
				if !vc.fc.ReturnsUntainted {
					continue
				}
				bad := false
				for _, r := range x.Results {
					if ts.isT(r) {
						bad = true
					}
				}
				n++
				add(fmt.Sprintf("secret-in-result#%d", n), "the returned values do not depend on the secret parameters", x.Pos(), bad, "a returned value depends on a secret parameter")
			}
		}
	}
	sort.Slice(out, func(i, j int) bool { return out[i].Name < out[j].Name })
	return out
}

// markObligations (C12, part 2): in a visitor that descends into the children of a value, every
// error obtained from the visit of a child is passed through markSchemaErrorKey /
// markSchemaErrorIndex - with the very key or index the child was taken from - before it is
// returned or collected. Together with the contracts of the two marking functions (they append the
// key to the error's reverse path) and of JSONPointer (it reverses that path) this is what makes the
// pointer of a reported error resolve inside the validated value. Computed on the SSA of the
// function (option `marks-child-errors`): one obligation per child visit.
func (vc *FnVC) markObligations() []*Obligation {
	if vc.fc == nil || vc.fc.Options["marks-child-errors"] == "" {
		return nil
	}
	var out []*Obligation
	n := 0
	add := func(pos token.Pos, bad bool, what string) {
		n++
		o := &Obligation{Name: fmt.Sprintf("%s/label/child-error-marked#%d", vc.shortName(), n), Class: "label", Func: vc.shortName(), Tags: vc.fnTags(), Expect: "unsat", Src: "marks-child-errors", Pos: vc.posOf(pos), vc: vc}
		o.Result = &SolveResult{Status: "unsat", Solver: "ssa-flow"}
		if bad {
			o.Result = &SolveResult{Status: "sat", Solver: "ssa-flow", Output: what}
		}
		out = append(out, o)
	}
	// the key a child value was taken with: value[k] (map lookup) or the range element of index i
	childKey := func(v ssa.Value) ssa.Value {
		for i := 0; i < 6; i++ {
			switch x := v.(type) {
			case *ssa.Lookup:
				return x.Index
			case *ssa.UnOp:
				if ia, ok := x.X.(*ssa.IndexAddr); ok && x.Op == token.MUL {
					return ia.Index
				}
				return nil
			case *ssa.Extract:
				v = x.Tuple
			case *ssa.Phi:
				return nil
			default:
				return nil
			}
		}
		return nil
	}
	for _, b := range vc.fn.Blocks {
		for _, ins := range b.Instrs {
			call, ok := ins.(*ssa.Call)
			if !ok {
				continue
			}
			callee := call.Call.StaticCallee()
			if callee == nil || callee.Name() != "visitJSON" || len(call.Call.Args) < 3 {
				continue
			}
			key := childKey(call.Call.Args[2])
			if key == nil {
				// not a visit of a child taken by key or index (e.g. the value itself)
				continue
			}
			// follow the error: every use that returns it or appends it must come after a mark call
			// with this key
			seen := map[ssa.Value]bool{}
			var bad string
			var follow func(v ssa.Value, marked bool)
			follow = func(v ssa.Value, marked bool) {
				if seen[v] && !marked {
					return
				}
				if !marked {
					seen[v] = true
				}
				refs := v.Referrers()
				if refs == nil {
					return
				}
				for _, r := range *refs {
					switch u := r.(type) {
					case *ssa.Call:
						cf := u.Call.StaticCallee()
						if cf != nil && (cf.Name() == "markSchemaErrorKey" || cf.Name() == "markSchemaErrorIndex") && len(u.Call.Args) == 2 && u.Call.Args[0] == v {
							if u.Call.Args[1] != key {
								bad = "the error of the child visit at " + vc.posOf(call.Pos()) + " is marked with a different key than the one the child was taken with"
							}
							continue // the marked result is a new value: fine from here on
						}
						if b, isB := u.Call.Value.(*ssa.Builtin); isB && b.Name() == "append" && !marked {
							bad = "the error of the child visit at " + vc.posOf(call.Pos()) + " is collected unmarked at " + vc.posOf(u.Pos())
						}
					case *ssa.Return:
						if !marked {
							bad = "the error of the child visit at " + vc.posOf(call.Pos()) + " is returned unmarked at " + vc.posOf(u.Pos())
						}
					case *ssa.Phi:
						follow(u, marked)
					case *ssa.Extract:
						follow(u, marked)
					case *ssa.TypeAssert:
						follow(u, marked)
					case *ssa.ChangeInterface:
						follow(u, marked)
					case *ssa.MakeInterface:
						follow(u, marked)
					case *ssa.Slice:
						follow(u, marked)
					case *ssa.Store:
						if !marked {
							// stored into a local: follow loads of that cell
							if al, ok := u.Addr.(*ssa.Alloc); ok && u.Val == v {
								for _, r2 := range *al.Referrers() {
									if ld, ok := r2.(*ssa.UnOp); ok && ld.Op == token.MUL {
										follow(ld, marked)
									}
								}
							}
						}
					}
				}
			}
			follow(call, false)
			add(call.Pos(), bad != "", bad)
		}
	}
	return out
}
