package main

// Frame obligations discharged by a call-graph scan (DESIGN.md 2.3 "global frame obligation",
// 2.7 frame): a function with `modifies *` may declare `preserves <locations>`; the obligation
// is that no function reachable from it (CHA call graph over the whole program, module
// functions inspected) contains a store to those components other than into an object it has
// just allocated itself, and no call site whose contract modifies the named ghost state.

import (
	"go/token"
	"fmt"
	"go/types"
	"sort"
	"strings"

	"golang.org/x/tools/go/callgraph/rta"
	"golang.org/x/tools/go/ssa"
)

// reachable returns the functions reachable from fn (including fn), by Rapid Type Analysis
// rooted at fn: dynamic calls are resolved against the types converted to interfaces and the
// functions whose address is taken in the reachable code itself. Assumption (listed in the
// evidence): interface values and function values reaching fn from outside (arguments,
// user-set globals) do not have module wrapper types and, being user callbacks, satisfy A3.
func (p *Prog) reachable(fn *ssa.Function) map[*ssa.Function]bool {
	if r, ok := p.reachCache[fn]; ok {
		return r
	}
	res := rta.Analyze([]*ssa.Function{fn}, true)
	seen := map[*ssa.Function]bool{fn: true}
	work := []*ssa.Function{fn}
	for len(work) > 0 {
		f := work[len(work)-1]
		work = work[:len(work)-1]
		n := res.CallGraph.Nodes[f]
		if n != nil {
			for _, e := range n.Out {
				g := e.Callee.Func
				if g == nil || seen[g] {
					continue
				}
				// encoding hooks of module types are entered from the codec libraries only on a
				// receiver of that type; the traffic path hands those libraries request data
				// and error values, never document objects (assumption listed in the evidence)
				if !inModule(f) && inModule(g) && codecHook[g.Name()] {
					continue
				}
				seen[g] = true
				work = append(work, g)
			}
		}
		for _, b := range f.Blocks {
			for _, ins := range b.Instrs {
				if mc, ok := ins.(*ssa.MakeClosure); ok {
					if g := mc.Fn.(*ssa.Function); !seen[g] {
						seen[g] = true
						work = append(work, g)
					}
				}
			}
		}
	}
	if p.reachCache == nil {
		p.reachCache = map[*ssa.Function]map[*ssa.Function]bool{}
	}
	p.reachCache[fn] = seen
	return seen
}

var codecHook = map[string]bool{"UnmarshalJSON": true, "UnmarshalYAML": true, "MarshalJSON": true, "MarshalYAML": true, "JSONLookup": true}

type scanHit struct {
	fn   *ssa.Function
	pos  string
	what string
}

// rootAlloc: is the address rooted at an allocation made in the same function?
func rootAlloc(v ssa.Value) bool {
	for {
		switch x := v.(type) {
		case *ssa.Alloc, *ssa.MakeSlice, *ssa.MakeMap:
			return true
		case *ssa.Slice:
			v = x.X
		case *ssa.FieldAddr:
			v = x.X
		case *ssa.IndexAddr:
			v = x.X
		case *ssa.UnOp:
			// a pointer loaded from a field of a local struct: if the latest store to that field
			// in the same block (no call in between) put a fresh allocation there, the pointer is
			// that allocation (`to.Value = &v; to.Value.F = ...`)
			fwd := forwardedStore(x)
			if fwd == nil {
				return false
			}
			v = fwd
		default:
			return false
		}
	}
}

func forwardedStore(ld *ssa.UnOp) ssa.Value {
	if ld.Op != token.MUL {
		return nil
	}
	fa, ok := ld.X.(*ssa.FieldAddr)
	if !ok {
		return nil
	}
	base, ok := fa.X.(*ssa.Alloc)
	if !ok {
		return nil
	}
	b := ld.Block()
	idx := -1
	for i, ins := range b.Instrs {
		if ins == ld {
			idx = i
			break
		}
	}
	for i := idx - 1; i >= 0; i-- {
		switch y := b.Instrs[i].(type) {
		case *ssa.Store:
			if fa2, ok := y.Addr.(*ssa.FieldAddr); ok && fa2.X == base && fa2.Field == fa.Field {
				return y.Val
			}
			if fa2, ok := y.Addr.(*ssa.FieldAddr); ok && fa2.X == base {
				continue // another field of the same local
			}
			if _, ok := y.Addr.(*ssa.Alloc); ok {
				continue
			}
			if rootAlloc(y.Addr) {
				continue
			}
			return nil
		case ssa.CallInstruction:
			return nil
		}
	}
	return nil
}

// scanPreserves checks one `preserves` location for function fn.
func (vc *FnVC) scanPreserves(loc string) []scanHit {
	p := vc.prog
	var hits []scanHit
	reach := p.reachable(vc.fn)
	// ghost?
	if _, isGhost := p.cs.Ghosts[loc]; isGhost {
		vc.enc.usedAssumptions["ghost frame scan inspects module call sites; dependency code reaches the modelled entities (client connection, handler) only through values module code hands it"] = true
		for f := range reach {
			if !inModule(f) {
				continue
			}
			for _, b := range f.Blocks {
				for _, ins := range b.Instrs {
					ci, ok := ins.(ssa.CallInstruction)
					if !ok {
						continue
					}
					for _, fc := range vc.siteContracts(ci.Common()) {
						if contractTouchesGhost(fc, loc) {
							hits = append(hits, scanHit{f, vc.posOf(ins.Pos()), "call with contract " + fc.Key + " modifies ghost " + loc})
						}
					}
				}
			}
		}
		return hits
	}
	if strings.HasPrefix(loc, "globals(") && strings.HasSuffix(loc, ")") {
		return vc.scanGlobals(reach, loc[8:len(loc)-1])
	}
	env := vc.newEnv(vc.entry, vc.entry)
	comps := map[string]bool{}
	class := ""
	if strings.HasPrefix(loc, "all(") && strings.HasSuffix(loc, ")") {
		class = "pkg:" + loc[4:len(loc)-1]
	} else {
		for _, c := range env.compsOfLocSpec(loc) {
			comps[c] = true
		}
	}
	match := func(c string) bool {
		if class != "" {
			return compClass(c) == class
		}
		return comps[c]
	}
	for f := range reach {
		if !inModule(f) {
			continue
		}
		for _, b := range f.Blocks {
			for _, ins := range b.Instrs {
				switch x := ins.(type) {
				case *ssa.Store:
					if rootAlloc(x.Addr) {
						continue
					}
					for _, c := range vc.compsOfAddr(x.Addr) {
						if match(c) {
							hits = append(hits, scanHit{f, vc.posOf(ins.Pos()), "store to " + c})
						}
					}
				case *ssa.MapUpdate:
					if rootAlloc(x.Map) {
						continue
					}
					mh, _, _, _ := vc.mapComps(x.Map.Type().Underlying().(*types.Map))
					if match(mh) {
						hits = append(hits, scanHit{f, vc.posOf(ins.Pos()), "map update of " + mh})
					}
				case ssa.CallInstruction:
					if bi, ok := x.Common().Value.(*ssa.Builtin); ok && (bi.Name() == "delete" || bi.Name() == "clear") {
						if mt, ok := x.Common().Args[0].Type().Underlying().(*types.Map); ok && !rootAlloc(x.Common().Args[0]) {
							mh, _, _, _ := vc.mapComps(mt)
							if match(mh) {
								hits = append(hits, scanHit{f, vc.posOf(ins.Pos()), "delete from " + mh})
							}
						}
					}
					if bi, ok := x.Common().Value.(*ssa.Builtin); ok && bi.Name() == "copy" {
						if sl, ok := x.Common().Args[0].Type().Underlying().(*types.Slice); ok && !rootAlloc(x.Common().Args[0]) {
							c, _ := vc.elemComp(sl.Elem())
							if match(c) {
								hits = append(hits, scanHit{f, vc.posOf(ins.Pos()), "copy into " + c})
							}
						}
					}
				}
			}
		}
	}
	return hits
}

func contractTouchesGhost(fc *FuncContract, g string) bool {
	for _, cl := range fc.Modifies {
		for _, l := range cl.Locs {
			l = strings.TrimSpace(l)
			if l == g || strings.HasPrefix(l, g+"[") {
				return true
			}
		}
	}
	for _, cl := range fc.Records {
		if cl.Name == g {
			return true
		}
	}
	return false
}

// siteContracts: the assumed (iface/fnfield/trusted) contracts applicable at a call site.
func (vc *FnVC) siteContracts(c *ssa.CallCommon) []*FuncContract {
	var out []*FuncContract
	if _, ok := c.Value.(*ssa.Builtin); ok {
		return nil
	}
	if c.IsInvoke() {
		_, generic := vc.invokeCandidates(c)
		if generic != nil {
			out = append(out, generic)
		}
		return out
	}
	if fn := c.StaticCallee(); fn != nil {
		if fc := vc.prog.contractOf(fn); fc != nil && fc.Kind == "trusted" {
			out = append(out, fc)
		}
		return out
	}
	if fc := vc.funcValueContract(c.Value); fc != nil {
		out = append(out, fc)
	}
	return out
}

// preservesObligations turns the preserves clauses of the function's contract into
// obligations discharged by the scan.
func (vc *FnVC) preservesObligations() []*Obligation {
	var out []*Obligation
	if vc.fc == nil {
		return nil
	}
	for _, cl := range vc.fc.Preserves {
		for _, loc := range cl.Locs {
			name := vc.shortName() + "/preserves/" + loc
			o := &Obligation{Name: name, Class: "frame-scan", Func: vc.shortName(), Tags: cl.Tags, Expect: "unsat", Src: "preserves " + loc, vc: vc}
			if len(o.Tags) == 0 {
				o.Tags = vc.fnTags()
			}
			var hits []scanHit
			var failure string
			func() {
				defer func() {
					if r := recover(); r != nil {
						if u, ok := r.(unsupportedErr); ok {
							failure = u.Error()
							return
						}
						panic(r)
					}
				}()
				hits = vc.scanPreserves(loc)
			}()
			res := &SolveResult{Status: "unsat", Solver: "callgraph-scan"}
			if failure != "" {
				res = &SolveResult{Status: "error", Output: failure}
			} else if len(hits) > 0 {
				sort.Slice(hits, func(i, j int) bool { return hits[i].pos < hits[j].pos })
				var sb strings.Builder
				for i, h := range hits {
					if i >= 20 {
						fmt.Fprintf(&sb, "... %d more\n", len(hits)-i)
						break
					}
					fmt.Fprintf(&sb, "%s in %s: %s\n", h.pos, h.fn.String(), h.what)
				}
				res = &SolveResult{Status: "sat", Solver: "callgraph-scan", Output: sb.String()}
				o.Pos = hits[0].pos
			}
			o.Result = res
			out = append(out, o)
		}
	}
	return out
}

var _ = types.Typ

// globalRoot: the package-level variable an address or loaded value is rooted at, if any.
func globalRoot(v ssa.Value) *ssa.Global {
	for i := 0; i < 8; i++ {
		switch x := v.(type) {
		case *ssa.Global:
			return x
		case *ssa.FieldAddr:
			v = x.X
		case *ssa.IndexAddr:
			v = x.X
		case *ssa.UnOp:
			v = x.X
		default:
			return nil
		}
	}
	return nil
}

// scanGlobals: writes to package-level variables of module package pkgName (stores to the
// variable, to memory reached by loading it directly, updates of maps held in it). Calls of
// methods of sync types are not stores and are allowed by construction.
func (vc *FnVC) scanGlobals(reach map[*ssa.Function]bool, pkgName string) []scanHit {
	var hits []scanHit
	isPkg := func(g *ssa.Global) bool { return g != nil && g.Pkg != nil && g.Pkg.Pkg.Name() == pkgName && inModulePkg(g.Pkg.Pkg.Path()) }
	for f := range reach {
		if !inModule(f) || f.Synthetic == "package initializer" || f.Name() == "init" {
			continue
		}
		for _, b := range f.Blocks {
			for _, ins := range b.Instrs {
				switch x := ins.(type) {
				case *ssa.Store:
					if g := globalRoot(x.Addr); isPkg(g) {
						hits = append(hits, scanHit{f, vc.posOf(ins.Pos()), "store to package variable " + g.Name()})
					}
				case *ssa.MapUpdate:
					if g := globalRoot(x.Map); isPkg(g) {
						hits = append(hits, scanHit{f, vc.posOf(ins.Pos()), "update of map in package variable " + g.Name()})
					}
				case ssa.CallInstruction:
					if bi, ok := x.Common().Value.(*ssa.Builtin); ok && (bi.Name() == "delete" || bi.Name() == "clear") {
						if g := globalRoot(x.Common().Args[0]); isPkg(g) {
							hits = append(hits, scanHit{f, vc.posOf(ins.Pos()), "delete from map in package variable " + g.Name()})
						}
					}
				}
			}
		}
	}
	return hits
}

func inModulePkg(path string) bool { return strings.HasPrefix(path, modulePath) }

// checkNonNilGlobal: the package variable is stored to only by its package's initializer,
// and what is stored there is syntactically non-nil (a constructor call from the allow-list,
// an allocation, a conversion of a non-nil value to an interface, a function).
func (p *Prog) checkNonNilGlobal(g *ssa.Global) string {
	if tn, typed := p.cs.GlobalTypes[g.Pkg.Pkg.Path()+"::"+g.Name()]; typed {
		// a declared dynamic type is only accepted for the constructors whose result type is known
		want := map[string]string{"*errors.errorString": "errors.New"}
		ctor, ok := want[tn]
		if !ok {
			return "declared dynamic type " + tn + " is not one the scan can confirm"
		}
		for fn := range p.allFns {
			for _, b := range fn.Blocks {
				for _, ins := range b.Instrs {
					if st, ok := ins.(*ssa.Store); ok && st.Addr == g {
						c, isCall := st.Val.(*ssa.Call)
						if !isCall || c.Call.StaticCallee() == nil || c.Call.StaticCallee().String() != ctor {
							return "not initialised by " + ctor
						}
					}
				}
			}
		}
	}
	nonNilCall := map[string]bool{"errors.New": true, "fmt.Errorf": true, "regexp.MustCompile": true}
	// a package variable of a type without nil (string, number, bool): only "assigned once, in the
	// package initialiser" is claimed
	scalar := false
	if b, ok := g.Type().(*types.Pointer).Elem().Underlying().(*types.Basic); ok && b.Kind() != types.UnsafePointer {
		scalar = true
	}
	var okInit bool
	for fn := range p.allFns {
		for _, b := range fn.Blocks {
			for _, ins := range b.Instrs {
				st, ok := ins.(*ssa.Store)
				if !ok || st.Addr != g {
					continue
				}
				if fn.Synthetic != "package initializer" || fn.Pkg != g.Pkg {
					return "assigned outside the package initializer: " + fn.String()
				}
				if scalar {
					if okInit {
						return "assigned more than once"
					}
					okInit = true
					continue
				}
				switch v := st.Val.(type) {
				case *ssa.Call:
					callee := v.Call.StaticCallee()
					if callee == nil || (!nonNilCall[callee.String()] && !returnsOnlyClosures(callee)) {
						return "initialised by a call not known to return non-nil"
					}
				case *ssa.MakeInterface, *ssa.Alloc, *ssa.MakeMap, *ssa.MakeClosure, *ssa.Function, *ssa.MakeSlice, *ssa.ChangeType:
				default:
					return fmt.Sprintf("initialised by %T", st.Val)
				}
				okInit = true
			}
		}
	}
	if !okInit {
		return "never initialised"
	}
	return ""
}

// returnsOnlyClosures: every return of the (module) function returns a function literal.
func returnsOnlyClosures(fn *ssa.Function) bool {
	if !inModule(fn) || len(fn.Blocks) == 0 {
		return false
	}
	seen := false
	for _, b := range fn.Blocks {
		for _, ins := range b.Instrs {
			if r, ok := ins.(*ssa.Return); ok {
				if len(r.Results) != 1 {
					return false
				}
				v := r.Results[0]
				if ct, ok := v.(*ssa.ChangeType); ok {
					v = ct.X
				}
				switch v.(type) {
				case *ssa.MakeClosure, *ssa.Function:
					seen = true
				default:
					return false
				}
			}
		}
	}
	return seen
}

// globalConstInit: the compile-time constant the package initialiser stores into g (nil if g is
// initialised otherwise). Only meaningful for globals declared `global nonnil` (assigned once).
func (p *Prog) globalConstInit(g *ssa.Global) *ssa.Const {
	initFn := g.Pkg.Func("init")
	if initFn == nil {
		return nil
	}
	var found *ssa.Const
	for _, b := range initFn.Blocks {
		for _, ins := range b.Instrs {
			if st, ok := ins.(*ssa.Store); ok && st.Addr == g {
				c, isConst := st.Val.(*ssa.Const)
				if !isConst || found != nil {
					return nil
				}
				found = c
			}
		}
	}
	return found
}
