package main

// Frame obligations discharged by a call-graph scan (DESIGN.md 2.3 "global frame obligation",
// 2.7 frame): a function with `modifies *` may declare `preserves <locations>`; the obligation
// is that no function reachable from it (CHA call graph over the whole program, module
// functions inspected) contains a store to those components other than into an object it has
// just allocated itself, and no call site whose contract modifies the named ghost state.

import (
	"fmt"
	"go/types"
	"sort"
	"strings"

	"golang.org/x/tools/go/callgraph/rta"
	"golang.org/x/tools/go/ssa"
)

// reachable returns the functions reachable from fn (including fn), by Rapid Type Analysis
// rooted at fn: dynamic calls are resolved against the types converted to interfaces and the
// functions whose address is taken in the reachable code itself. Assumption (listed in the
// evidence): interface values and function values reaching fn from outside (arguments,
// user-set globals) do not have module wrapper types and, being user callbacks, satisfy A3.
func (p *Prog) reachable(fn *ssa.Function) map[*ssa.Function]bool {
	if r, ok := p.reachCache[fn]; ok {
		return r
	}
	res := rta.Analyze([]*ssa.Function{fn}, false)
	seen := map[*ssa.Function]bool{fn: true}
	for f := range res.Reachable {
		seen[f] = true
	}
	if p.reachCache == nil {
		p.reachCache = map[*ssa.Function]map[*ssa.Function]bool{}
	}
	p.reachCache[fn] = seen
	return seen
}

type scanHit struct {
	fn   *ssa.Function
	pos  string
	what string
}

// rootAlloc: is the address rooted at an allocation made in the same function?
func rootAlloc(v ssa.Value) bool {
	for {
		switch x := v.(type) {
		case *ssa.Alloc:
			return true
		case *ssa.FieldAddr:
			v = x.X
		case *ssa.IndexAddr:
			v = x.X
		default:
			return false
		}
	}
}

// scanPreserves checks one `preserves` location for function fn.
func (vc *FnVC) scanPreserves(loc string) []scanHit {
	p := vc.prog
	var hits []scanHit
	reach := p.reachable(vc.fn)
	// ghost?
	if _, isGhost := p.cs.Ghosts[loc]; isGhost {
		vc.enc.usedAssumptions["ghost frame scan inspects module call sites; dependency code reaches the modelled entities (client connection, handler) only through values module code hands it"] = true
		for f := range reach {
			if !inModule(f) {
				continue
			}
			for _, b := range f.Blocks {
				for _, ins := range b.Instrs {
					ci, ok := ins.(ssa.CallInstruction)
					if !ok {
						continue
					}
					for _, fc := range vc.siteContracts(ci.Common()) {
						if contractTouchesGhost(fc, loc) {
							hits = append(hits, scanHit{f, vc.posOf(ins.Pos()), "call with contract " + fc.Key + " modifies ghost " + loc})
						}
					}
				}
			}
		}
		return hits
	}
	env := vc.newEnv(vc.entry, vc.entry)
	comps := map[string]bool{}
	for _, c := range env.compsOfLocSpec(loc) {
		comps[c] = true
	}
	for f := range reach {
		if !inModule(f) {
			continue
		}
		for _, b := range f.Blocks {
			for _, ins := range b.Instrs {
				st, ok := ins.(*ssa.Store)
				if !ok {
					continue
				}
				if rootAlloc(st.Addr) {
					continue
				}
				for _, c := range vc.compsOfAddr(st.Addr) {
					if comps[c] {
						hits = append(hits, scanHit{f, vc.posOf(ins.Pos()), "store to " + c})
					}
				}
			}
		}
	}
	return hits
}

func contractTouchesGhost(fc *FuncContract, g string) bool {
	for _, cl := range fc.Modifies {
		for _, l := range cl.Locs {
			l = strings.TrimSpace(l)
			if l == g || strings.HasPrefix(l, g+"[") {
				return true
			}
		}
	}
	for _, cl := range fc.Records {
		if cl.Name == g {
			return true
		}
	}
	return false
}

// siteContracts: the assumed (iface/fnfield/trusted) contracts applicable at a call site.
func (vc *FnVC) siteContracts(c *ssa.CallCommon) []*FuncContract {
	var out []*FuncContract
	if _, ok := c.Value.(*ssa.Builtin); ok {
		return nil
	}
	if c.IsInvoke() {
		_, generic := vc.invokeCandidates(c)
		if generic != nil {
			out = append(out, generic)
		}
		return out
	}
	if fn := c.StaticCallee(); fn != nil {
		if fc := vc.prog.contractOf(fn); fc != nil && fc.Kind == "trusted" {
			out = append(out, fc)
		}
		return out
	}
	if fc := vc.funcValueContract(c.Value); fc != nil {
		out = append(out, fc)
	}
	return out
}

// preservesObligations turns the preserves clauses of the function's contract into
// obligations discharged by the scan.
func (vc *FnVC) preservesObligations() []*Obligation {
	var out []*Obligation
	if vc.fc == nil {
		return nil
	}
	for _, cl := range vc.fc.Preserves {
		for _, loc := range cl.Locs {
			name := vc.shortName() + "/preserves/" + loc
			o := &Obligation{Name: name, Class: "frame-scan", Func: vc.shortName(), Tags: cl.Tags, Expect: "unsat", Src: "preserves " + loc, vc: vc}
			if len(o.Tags) == 0 {
				o.Tags = vc.fnTags()
			}
			var hits []scanHit
			var failure string
			func() {
				defer func() {
					if r := recover(); r != nil {
						if u, ok := r.(unsupportedErr); ok {
							failure = u.Error()
							return
						}
						panic(r)
					}
				}()
				hits = vc.scanPreserves(loc)
			}()
			res := &SolveResult{Status: "unsat", Solver: "callgraph-scan"}
			if failure != "" {
				res = &SolveResult{Status: "error", Output: failure}
			} else if len(hits) > 0 {
				sort.Slice(hits, func(i, j int) bool { return hits[i].pos < hits[j].pos })
				var sb strings.Builder
				for i, h := range hits {
					if i >= 20 {
						fmt.Fprintf(&sb, "... %d more\n", len(hits)-i)
						break
					}
					fmt.Fprintf(&sb, "%s in %s: %s\n", h.pos, h.fn.String(), h.what)
				}
				res = &SolveResult{Status: "sat", Solver: "callgraph-scan", Output: sb.String()}
				o.Pos = hits[0].pos
			}
			o.Result = res
			out = append(out, o)
		}
	}
	return out
}

var _ = types.Typ
