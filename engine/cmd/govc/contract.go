package main

// Contract files: `//@` lines in /repo/<pkg>/verif_contracts*.go (build tag verif) and in
// /verif/contracts/trusted/*.spec (assumed contracts for dependencies).

import (
	"fmt"
	"os"
	"path/filepath"
	"sort"
	"strings"
)

type Clause struct {
	Kind string // requires, ensures, modifies, panics_if, invariant, reads
	Src  string
	E    Expr     // parsed (requires/ensures/invariant/panics_if)
	Locs []string // modifies: raw location strings
	Tags []string // optional property tags (@C01)
	Name string   // optional label (ensures "name": ...)
	File string
	Line int
}

type LoopSpec struct {
	Ordinal    int
	Assumes    []*Clause // instances of definitional axioms, assumed at the loop header (listed as assumptions)
	Invariants []*Clause
	Unroll     int
}

// AtCall: `atcall <callee key> [name] <expr>`: at every call of the callee in this function the
// expression must hold; the callee's arguments are named arg_<parameter>.
type AtCall struct {
	Callee string
	Cl     *Clause
}

type FuncContract struct {
	View     string // non-empty: this contract replaces the function's contract when that property is checked
	AtCalls  []*AtCall // caller-side obligations at the call sites of a named callee
	Key      string // e.g. "(*Responses).Status", "Content.Get", "ValidateRequest", "strings.IndexByte", "(*Validator).Middleware$1"
	Pkg      string // package path the contract was declared in ("" for trusted catalogue: Key is qualified)
	Kind     string // "func", "iface", "fnfield", "trusted"
	ParamNames []string // for trusted/iface/fnfield: optional explicit parameter names
	Requires []*Clause
	Ensures  []*Clause
	Modifies []*Clause // nil = unspecified (default), present-but-empty handled through "nothing"
	ModifiesNothing bool
	ModifiesAll bool
	PanicsIf []*Clause
	Secrets  []string  // parameters carrying data that must not flow into error reasons (C19)
	Untainted bool     // the result carries no information from the arguments (assumed for callbacks / proved with ReturnsUntainted)
	ReturnsUntainted bool // obligation: what the function returns is not derived from its secret parameters
	Assuming []*Clause // scope of the function's own proof; callers get `assuming ==> ensures`
	Defines  []*Clause // definitions of abstract verdict predicates: assumed at call sites, never an obligation
	Preserves []*Clause // with `modifies *`: locations proved untouched by a call-graph scan
	Records  []*Clause // ghost assignments performed at return: records G := expr
	Loops    map[int]*LoopSpec
	Tags     []string
	Pure     bool
	Fresh    bool // result is freshly allocated
	NoSafety bool // do not generate safety obligations (never used for claimed functions)
	Options  map[string]string
	File     string
	Line     int
}

type SpecParam struct {
	Name string
	Ty   TypeExpr
}

type SpecDecl struct {
	Name   string
	Pkg    string
	Params []SpecParam
	Ret    TypeExpr
	Body   Expr // nil = uninterpreted
	Src    string
	Reads  []string // components read (for uninterpreted, heap-dependent specs); nil = heap independent
	HeapDep bool
	Opaque bool // translated as an uninterpreted symbol with a (quantified) definitional axiom
	File   string
	Line   int
}

type AxiomDecl struct {
	Name  string
	Pkg   string
	E     Expr
	Src   string
	Lemma bool
	Tags  []string
	File  string
	Line  int
}

type GhostDecl struct {
	Name string
	Pkg  string
	Ty   TypeExpr
}

type GenerateDecl struct {
	Pkg  string
	Args []string
	File string
	Line int
}

type Contracts struct {
	Funcs    map[string]*FuncContract // key: pkgpath + "::" + Key  (trusted: "::" + qualified)
	Specs    map[string]*SpecDecl     // by name (global namespace)
	Axioms   []*AxiomDecl
	Ghosts   map[string]*GhostDecl
	Generate []*GenerateDecl
	Files    []string
	Guards   map[string]GuardDecl // "pkgpath::global" -> mutex
	NonNilGlobals map[string]bool // "pkgpath::global": assigned once, in the package initializer, a non-nil value
	GlobalTypes   map[string]string // optional dynamic type of such a global ("name:Type")
	WalkComplete  []WalkCompleteDecl
	OnlyCalledBy  []OnlyCalledByDecl
	DefaultFrames map[string][]string // property -> locations every uncontracted module callee is scanned to preserve
	Extensions    []*FuncContract   // `extend func`: clauses merged into the base contract
	AllMethods    []AllMethodsDecl  // every method of a type must be under contract for a property
	RefWalks      []RefWalkDecl     // a traversal must read every field that can hold a reference
	FieldShapes   []FieldShapeDecl  // every struct whose field <Index> is named <Name> declares it with type <Type>
	PropertyScope map[string][]string // property -> properties whose scoped clauses also apply to it
	PropertyClasses map[string][]string // property -> the obligation classes it consists of (default: all)
	PropertyLevel   map[string][2]string // property -> evidence level other than proof, with its explanation
	MapNonNil     map[string]bool   // "pkgpath::global": map whose stored values are non-nil
}

// OnlyCalledByDecl: call sites of Callee (a qualified function, or "type:<NamedFuncType>" for calls
// through values of that type) in module code may only occur in the listed functions.
type OnlyCalledByDecl struct {
	Pkg     string
	Callee  string
	Callers []string
	Tags    []string
}

// WalkCompleteDecl: every method named Method of a type declared in the package must be reachable
// (call graph) from Root; Except lists methods known not to be (recorded findings keep their name).
type WalkCompleteDecl struct {
	Pkg, Root, Method string
	Tags              []string
}

// RefWalkDecl: the traversal rooted at Root must read every struct field of the package's types
// whose type is (a pointer to, a slice or a map of) one of RefTypes: a field it never reads is a
// position whose references it cannot reach.
// FieldShapeDecl: a fact about the declared struct types of a package that reflection-based code
// relies on (decided by a scan of go/types, not assumed).
type FieldShapeDecl struct {
	Pkg   string
	Index int
	Name  string
	Type  string
	Tags  []string
}

type RefWalkDecl struct {
	Pkg, Root string
	RefTypes  []string
	Tags      []string
}

type AllMethodsDecl struct {
	Pkg, Type string
	Tags      []string
	Why       string
}

type GuardDecl struct {
	Pkg, Global, Mutex string
	Tags               []string
}

func newContracts() *Contracts {
	return &Contracts{Funcs: map[string]*FuncContract{}, Specs: map[string]*SpecDecl{}, Ghosts: map[string]*GhostDecl{}, Guards: map[string]GuardDecl{}, NonNilGlobals: map[string]bool{}, GlobalTypes: map[string]string{}, MapNonNil: map[string]bool{}, DefaultFrames: map[string][]string{}}
}

// classOverride: struct types (pkgname.Type) whose components belong to a class other than
// their package's (e.g. per-call error objects are not part of the shared document).
var classOverride = map[string]string{}

var declKeywords = map[string]bool{"propertylevel": true, "propertyclasses": true, "propertyscope": true, "refwalk": true, "fieldshape": true, "walkcomplete": true, "onlycalledby": true, "default-frame": true, "extend": true, "view": true, "allmethods": true, "global": true, "guarded": true, "class": true, "func": true, "iface": true, "fnfield": true, "pred": true, "spec": true, "axiom": true,
	"lemma": true, "ghost": true, "generate": true, "trusted": true}
var clauseKeywords = map[string]bool{"requires": true, "ensures": true, "modifies": true, "panics_if": true, "loop": true,
	"atcall": true, "tag": true, "pure": true, "records": true, "preserves": true, "defines": true, "assuming": true, "secret": true, "untainted": true, "returns-untainted": true, "fresh": true, "reads": true, "option": true, "nosafety": true}

type rawLine struct {
	text string
	file string
	line int
}

// loadContractFile reads the //@ lines of one file. pkgPath is the import path of the
// package the file belongs to ("" for the trusted catalogue).
func (cs *Contracts) loadContractFile(path, pkgPath string) error {
	data, err := os.ReadFile(path)
	if err != nil {
		return err
	}
	cs.Files = append(cs.Files, path)
	return cs.loadContractText(string(data), path, pkgPath)
}

// loadContractText parses //@ lines (of a file, or generated from a `generate` directive).
func (cs *Contracts) loadContractText(text, path, pkgPath string) error {
	data := []byte(text)
	var lines []rawLine
	for i, l := range strings.Split(string(data), "\n") {
		t := strings.TrimSpace(l)
		if !strings.HasPrefix(t, "//@") {
			continue
		}
		t = strings.TrimSpace(strings.TrimPrefix(t, "//@"))
		if t == "" {
			continue
		}
		// strip trailing comments that start with " // "
		if k := strings.Index(t, " // "); k >= 0 && !strings.Contains(t[:k], "\"") {
			t = strings.TrimSpace(t[:k])
		} else if k >= 0 {
			// be careful with quotes: only strip if the quote count before is even
			if strings.Count(t[:k], "\"")%2 == 0 {
				t = strings.TrimSpace(t[:k])
			}
		}
		if strings.HasPrefix(t, "//") {
			continue
		}
		lines = append(lines, rawLine{t, path, i + 1})
	}
	// merge continuation lines
	var merged []rawLine
	for _, l := range lines {
		first := firstWord(l.text)
		if declKeywords[first] || clauseKeywords[first] || len(merged) == 0 {
			merged = append(merged, l)
		} else {
			merged[len(merged)-1].text += " " + l.text
		}
	}
	var cur *FuncContract
	for _, l := range merged {
		first := firstWord(l.text)
		rest := strings.TrimSpace(l.text[len(first):])
		fail := func(f string, a ...any) error {
			return fmt.Errorf("%s:%d: %s", l.file, l.line, fmt.Sprintf(f, a...))
		}
		isExt := false
		viewProp := ""
		if first == "view" {
			// `view C13 func K`: the contract of K used when property C13 is checked (the scope,
			// frame and clauses of K under its other properties do not apply there)
			viewProp = firstWord(rest)
			rest = strings.TrimSpace(rest[len(viewProp):])
			w := firstWord(rest)
			rest = strings.TrimSpace(rest[len(w):])
			if w != "func" {
				return fail("expected 'view <property> func <key>'")
			}
			first = "func"
		}
		if first == "extend" {
			w := firstWord(rest)
			rest = strings.TrimSpace(rest[len(w):])
			if w != "func" && w != "iface" && w != "fnfield" {
				return fail("expected 'extend func|iface|fnfield'")
			}
			first = w
			isExt = true
		}
		switch first {
		case "func", "iface", "fnfield", "trusted":
			kind := first
			if first == "trusted" {
				// "trusted func X" or "trusted iface"
				w := firstWord(rest)
				rest = strings.TrimSpace(rest[len(w):])
				if w != "func" {
					return fail("expected 'trusted func'")
				}
				kind = "trusted"
			}
			key := rest
			var pnames []string
			if k := strings.Index(rest, " ("); kind != "func" && k >= 0 && strings.HasSuffix(rest, ")") && !strings.HasPrefix(rest[k+1:], "(*") {
				// explicit param names: "strings.IndexByte (s, c)"
				key = strings.TrimSpace(rest[:k])
				for _, p := range strings.Split(rest[k+2:len(rest)-1], ",") {
					pnames = append(pnames, strings.TrimSpace(p))
				}
			}
			cur = &FuncContract{Key: key, Pkg: pkgPath, Kind: kind, ParamNames: pnames, Loops: map[int]*LoopSpec{}, File: l.file, Line: l.line, Options: map[string]string{}}
			id := pkgPath + "::" + key
			if kind == "trusted" {
				id = "::" + key
				cur.Pkg = ""
			}
			if viewProp != "" {
				id += "@" + viewProp
				cur.View = viewProp
			}
			if isExt {
				cs.Extensions = append(cs.Extensions, cur)
				cur.Options["$id"] = id
				continue
			}
			if _, dup := cs.Funcs[id]; dup {
				return fail("duplicate contract for %s", id)
			}
			cs.Funcs[id] = cur
		case "requires", "ensures", "panics_if", "defines", "assuming":
			if cur == nil {
				return fail("clause outside a func declaration")
			}
			cl := &Clause{Kind: first, File: l.file, Line: l.line}
			// optional tags @C01 @C12 and label "name":
			for strings.HasPrefix(rest, "@") {
				w := firstWord(rest)
				cl.Tags = append(cl.Tags, w[1:])
				rest = strings.TrimSpace(rest[len(w):])
			}
			if strings.HasPrefix(rest, "[") {
				if k := strings.Index(rest, "]"); k > 0 {
					cl.Name = rest[1:k]
					rest = strings.TrimSpace(rest[k+1:])
				}
			}
			cl.Src = rest
			e, err := parseExpr(rest)
			if err != nil {
				return fail("%v", err)
			}
			cl.E = e
			switch first {
			case "requires":
				cur.Requires = append(cur.Requires, cl)
			case "ensures":
				cur.Ensures = append(cur.Ensures, cl)
			case "panics_if":
				cur.PanicsIf = append(cur.PanicsIf, cl)
			case "defines":
				cur.Defines = append(cur.Defines, cl)
			case "assuming":
				cur.Assuming = append(cur.Assuming, cl)
			}
		case "preserves":
			if cur == nil {
				return fail("clause outside a func declaration")
			}
			cl := &Clause{Kind: "preserves", File: l.file, Line: l.line}
			for strings.HasPrefix(rest, "@") {
				w := firstWord(rest)
				cl.Tags = append(cl.Tags, w[1:])
				rest = strings.TrimSpace(rest[len(w):])
			}
			cl.Src = rest
			for _, p := range splitTop(rest, ',') {
				cl.Locs = append(cl.Locs, strings.TrimSpace(p))
			}
			cur.Preserves = append(cur.Preserves, cl)
		case "records":
			if cur == nil {
				return fail("clause outside a func declaration")
			}
			k := strings.Index(rest, ":=")
			if k < 0 {
				return fail("expected: records ghost := expr")
			}
			e, err := parseExpr(strings.TrimSpace(rest[k+2:]))
			if err != nil {
				return fail("%v", err)
			}
			cur.Records = append(cur.Records, &Clause{Kind: "records", Name: strings.TrimSpace(rest[:k]), Src: rest, E: e, File: l.file, Line: l.line})
		case "atcall":
			if cur == nil {
				return fail("clause outside a func declaration")
			}
			{
				// callee key up to the first " @" / " [" / two spaces
				k := strings.Index(rest, " [")
				if k < 0 {
					return fail("atcall <callee> [name] <expr>")
				}
				callee := strings.TrimSpace(rest[:k])
				body := strings.TrimSpace(rest[k:])
				cl := &Clause{Kind: "atcall", File: l.file, Line: l.line}
				for strings.HasPrefix(callee, "@") {
					w := firstWord(callee)
					cl.Tags = append(cl.Tags, w[1:])
					callee = strings.TrimSpace(callee[len(w):])
				}
				if kk := strings.Index(body, "]"); kk > 0 {
					cl.Name = body[1:kk]
					body = strings.TrimSpace(body[kk+1:])
				}
				cl.Src = body
				e, err := parseExpr(body)
				if err != nil {
					return fail("%v", err)
				}
				cl.E = e
				cur.AtCalls = append(cur.AtCalls, &AtCall{Callee: callee, Cl: cl})
			}
		case "modifies":
			if cur == nil {
				return fail("clause outside a func declaration")
			}
			if rest == "nothing" {
				cur.ModifiesNothing = true
				continue
			}
			if rest == "*" {
				cur.ModifiesAll = true
				continue
			}
			cl := &Clause{Kind: "modifies", Src: rest, File: l.file, Line: l.line}
			for _, p := range splitTop(rest, ',') {
				cl.Locs = append(cl.Locs, strings.TrimSpace(p))
			}
			cur.Modifies = append(cur.Modifies, cl)
		case "loop":
			if cur == nil {
				return fail("clause outside a func declaration")
			}
			var ord int
			var what string
			if strings.HasPrefix(rest, "* ") {
				// applies to every loop of the function
				ord = -1
				what = firstWord(strings.TrimSpace(rest[2:]))
			} else {
				n, _ := fmt.Sscanf(rest, "%d %s", &ord, &what)
				if n != 2 {
					return fail("bad loop clause")
				}
			}
			k := strings.Index(rest, what)
			body := strings.TrimSpace(rest[k+len(what):])
			ls := cur.Loops[ord]
			if ls == nil {
				ls = &LoopSpec{Ordinal: ord}
				cur.Loops[ord] = ls
			}
			switch what {
			case "invariant":
				// optional property scope: loop N invariant @C20 expr
				var itags []string
				for strings.HasPrefix(body, "@") {
					w := firstWord(body)
					itags = append(itags, w[1:])
					body = strings.TrimSpace(body[len(w):])
				}
				e, err := parseExpr(body)
				if err != nil {
					return fail("%v", err)
				}
				ls.Invariants = append(ls.Invariants, &Clause{Kind: "invariant", Src: body, E: e, Tags: itags, File: l.file, Line: l.line})
			case "assume":
				e, err := parseExpr(body)
				if err != nil {
					return fail("%v", err)
				}
				ls.Assumes = append(ls.Assumes, &Clause{Kind: "assume", Src: body, E: e, File: l.file, Line: l.line})
			case "unroll":
				fmt.Sscanf(body, "%d", &ls.Unroll)
			default:
				return fail("bad loop clause kind %q", what)
			}
		case "tag":
			if cur == nil {
				return fail("tag outside a func declaration")
			}
			cur.Tags = append(cur.Tags, strings.Fields(rest)...)
		case "secret":
			if cur == nil {
				return fail("secret outside a func declaration")
			}
			cur.Secrets = append(cur.Secrets, strings.Fields(rest)...)
		case "untainted":
			if cur == nil {
				return fail("untainted outside a func declaration")
			}
			cur.Untainted = true
		case "returns-untainted":
			if cur == nil {
				return fail("returns-untainted outside a func declaration")
			}
			cur.ReturnsUntainted = true
			cur.Untainted = true
		case "pure":
			if cur == nil {
				return fail("pure outside a func declaration")
			}
			cur.Pure = true
			cur.ModifiesNothing = true
		case "fresh":
			cur.Fresh = true
		case "nosafety":
			cur.NoSafety = true
		case "option":
			kv := strings.SplitN(rest, " ", 2)
			if len(kv) == 2 {
				cur.Options[kv[0]] = strings.TrimSpace(kv[1])
			} else {
				cur.Options[kv[0]] = "true"
			}
		case "reads":
			// applies to the most recent spec
			return fail("reads must be part of a spec declaration")
		case "pred", "spec":
			cur = nil
			sd, err := parseSpecDecl(first, rest)
			if err != nil {
				return fail("%v", err)
			}
			sd.Pkg = pkgPath
			sd.File, sd.Line = l.file, l.line
			if _, dup := cs.Specs[sd.Name]; dup {
				return fail("duplicate spec %s", sd.Name)
			}
			cs.Specs[sd.Name] = sd
		case "axiom", "lemma":
			cur = nil
			k := strings.Index(rest, ":")
			if k < 0 {
				return fail("expected name: expr")
			}
			name := strings.TrimSpace(rest[:k])
			var tags []string
			f := strings.Fields(name)
			name = f[0]
			for _, t := range f[1:] {
				tags = append(tags, strings.TrimPrefix(t, "@"))
			}
			src := strings.TrimSpace(rest[k+1:])
			e, err := parseExpr(src)
			if err != nil {
				return fail("%v", err)
			}
			cs.Axioms = append(cs.Axioms, &AxiomDecl{Name: name, Pkg: pkgPath, E: e, Src: src, Lemma: first == "lemma", Tags: tags, File: l.file, Line: l.line})
		case "ghost":
			cur = nil
			f := strings.Fields(rest)
			if len(f) < 3 || f[0] != "var" {
				return fail("expected: ghost var name type")
			}
			ty, err := parseTypeString(strings.Join(f[2:], " "))
			if err != nil {
				return fail("%v", err)
			}
			cs.Ghosts[f[1]] = &GhostDecl{Name: f[1], Pkg: pkgPath, Ty: ty}
		case "walkcomplete":
			cur = nil
			f := strings.Fields(rest)
			if len(f) != 3 || !strings.HasPrefix(f[0], "@") {
				return fail("expected: walkcomplete @PROP <root> <method>")
			}
			cs.WalkComplete = append(cs.WalkComplete, WalkCompleteDecl{Pkg: pkgPath, Root: f[1], Method: f[2], Tags: []string{f[0][1:]}})
		case "propertylevel":
			cur = nil
			f := strings.Fields(rest)
			if len(f) < 3 {
				return fail("expected: propertylevel <PROP> <level> <explanation>")
			}
			if cs.PropertyLevel == nil {
				cs.PropertyLevel = map[string][2]string{}
			}
			cs.PropertyLevel[f[0]] = [2]string{f[1], strings.TrimSpace(rest[strings.Index(rest, f[1])+len(f[1]):])}
		case "propertyclasses":
			cur = nil
			f := strings.Fields(rest)
			if len(f) < 2 {
				return fail("expected: propertyclasses <PROP> <class>...")
			}
			if cs.PropertyClasses == nil {
				cs.PropertyClasses = map[string][]string{}
			}
			cs.PropertyClasses[f[0]] = append(cs.PropertyClasses[f[0]], f[1:]...)
		case "propertyscope":
			cur = nil
			f := strings.Fields(rest)
			if len(f) < 2 {
				return fail("expected: propertyscope <PROP> <PROP>...")
			}
			if cs.PropertyScope == nil {
				cs.PropertyScope = map[string][]string{}
			}
			cs.PropertyScope[f[0]] = append(cs.PropertyScope[f[0]], f[1:]...)
		case "fieldshape":
			cur = nil
			// fieldshape @C20 0 Extensions : map[string]any
			f := strings.Fields(rest)
			k := strings.Index(rest, " : ")
			var idx int
			if len(f) < 5 || !strings.HasPrefix(f[0], "@") || k < 0 {
				return fail("expected: fieldshape @PROP <index> <name> : <type>")
			}
			if _, err := fmt.Sscanf(f[1], "%d", &idx); err != nil {
				return fail("expected: fieldshape @PROP <index> <name> : <type>")
			}
			cs.FieldShapes = append(cs.FieldShapes, FieldShapeDecl{Pkg: pkgPath, Index: idx, Name: f[2], Type: strings.TrimSpace(rest[k+3:]), Tags: []string{f[0][1:]}})
		case "refwalk":
			cur = nil
			// refwalk @C16 <root function> : SchemaRef, ParameterRef, ...
			f := strings.Fields(rest)
			k := strings.Index(rest, " : ")
			if len(f) < 3 || !strings.HasPrefix(f[0], "@") || k < 0 {
				return fail("expected: refwalk @PROP <root> : RefType, ...")
			}
			d := RefWalkDecl{Pkg: pkgPath, Root: f[1], Tags: []string{f[0][1:]}}
			for _, c := range strings.Split(rest[k+3:], ",") {
				d.RefTypes = append(d.RefTypes, strings.TrimSpace(c))
			}
			cs.RefWalks = append(cs.RefWalks, d)
		case "onlycalledby":
			cur = nil
			// onlycalledby @C11 <callee> : f1, f2
			f := strings.Fields(rest)
			k := strings.Index(rest, ":")
			if len(f) < 3 || !strings.HasPrefix(f[0], "@") || k < 0 {
				return fail("expected: onlycalledby @PROP <callee> : caller, ...")
			}
			d := OnlyCalledByDecl{Pkg: pkgPath, Callee: f[1], Tags: []string{f[0][1:]}}
			// "type:X" contains ':' too: split at the " : " separator
			k = strings.Index(rest, " : ")
			if k < 0 {
				return fail("expected ' : ' before the caller list")
			}
			for _, c := range strings.Split(rest[k+3:], ",") {
				d.Callers = append(d.Callers, strings.TrimSpace(c))
			}
			cs.OnlyCalledBy = append(cs.OnlyCalledBy, d)
		case "default-frame":
			cur = nil
			// default-frame @C11 preserves a, b, c
			f := strings.Fields(rest)
			if len(f) < 3 || !strings.HasPrefix(f[0], "@") || f[1] != "preserves" {
				return fail("expected: default-frame @PROP preserves loc, ...")
			}
			k := strings.Index(rest, "preserves")
			for _, l := range splitTop(rest[k+len("preserves"):], ',') {
				cs.DefaultFrames[f[0][1:]] = append(cs.DefaultFrames[f[0][1:]], strings.TrimSpace(l))
			}
		case "allmethods":
			cur = nil
			f := strings.Fields(rest)
			if len(f) < 2 {
				return fail("expected: allmethods <Type> @TAG...")
			}
			d := AllMethodsDecl{Pkg: pkgPath, Type: f[0]}
			for _, t := range f[1:] {
				d.Tags = append(d.Tags, strings.TrimPrefix(t, "@"))
			}
			cs.AllMethods = append(cs.AllMethods, d)
		case "global":
			cur = nil
			f := strings.Fields(rest)
			if len(f) >= 2 && f[0] == "mapvalues-nonnil" {
				for _, n := range f[1:] {
					cs.MapNonNil[pkgPath+"::"+strings.TrimSuffix(n, ",")] = true
				}
				continue
			}
			if len(f) < 2 || f[0] != "nonnil" {
				return fail("expected: global nonnil <name>...")
			}
			for _, n := range f[1:] {
				n = strings.TrimSuffix(n, ",")
				if k := strings.Index(n, ":"); k > 0 {
					cs.GlobalTypes[pkgPath+"::"+n[:k]] = n[k+1:]
					n = n[:k]
				}
				cs.NonNilGlobals[pkgPath+"::"+n] = true
			}
		case "guarded":
			cur = nil
			f := strings.Fields(rest)
			if len(f) < 3 || f[1] != "by" {
				return fail("expected: guarded <global> by <mutex> [@TAG...]")
			}
			g := GuardDecl{Pkg: pkgPath, Global: f[0], Mutex: f[2]}
			for _, t := range f[3:] {
				g.Tags = append(g.Tags, strings.TrimPrefix(t, "@"))
			}
			cs.Guards[pkgPath+"::"+f[0]] = g
		case "class":
			cur = nil
			f := strings.Fields(rest)
			if len(f) < 2 {
				return fail("expected: class <name> Type...")
			}
			for _, t := range f[1:] {
				classOverride[strings.TrimSuffix(t, ",")] = f[0]
			}
		case "generate":
			cur = nil
			cs.Generate = append(cs.Generate, &GenerateDecl{Pkg: pkgPath, Args: strings.Fields(rest), File: l.file, Line: l.line})
		default:
			return fail("unknown declaration %q", first)
		}
	}
	return nil
}

func parseSpecDecl(kind, rest string) (*SpecDecl, error) {
	// name(params) [T] [reads a,b] [:= expr]
	sd := &SpecDecl{Src: rest}
	body := ""
	if k := strings.Index(rest, ":="); k >= 0 {
		body = strings.TrimSpace(rest[k+2:])
		rest = strings.TrimSpace(rest[:k])
	}
	op := strings.Index(rest, "(")
	if op < 0 {
		return nil, fmt.Errorf("spec: expected '('")
	}
	sd.Name = strings.TrimSpace(rest[:op])
	// find matching paren
	depth, cp := 0, -1
	for i := op; i < len(rest); i++ {
		if rest[i] == '(' {
			depth++
		} else if rest[i] == ')' {
			depth--
			if depth == 0 {
				cp = i
				break
			}
		}
	}
	if cp < 0 {
		return nil, fmt.Errorf("spec %s: unbalanced parens", sd.Name)
	}
	params := strings.TrimSpace(rest[op+1 : cp])
	if params != "" {
		for _, p := range splitTop(params, ',') {
			p = strings.TrimSpace(p)
			k := strings.IndexAny(p, " \t")
			if k < 0 {
				return nil, fmt.Errorf("spec %s: parameter %q needs a type", sd.Name, p)
			}
			ty, err := parseTypeString(strings.TrimSpace(p[k:]))
			if err != nil {
				return nil, err
			}
			sd.Params = append(sd.Params, SpecParam{p[:k], ty})
		}
	}
	tail := strings.TrimSpace(rest[cp+1:])
	if strings.HasSuffix(tail, " opaque") || tail == "opaque" {
		sd.Opaque = true
		tail = strings.TrimSpace(strings.TrimSuffix(tail, "opaque"))
	}
	if k := strings.Index(tail, "reads "); k >= 0 {
		rd := strings.TrimSpace(tail[k+6:])
		tail = strings.TrimSpace(tail[:k])
		sd.HeapDep = true
		if rd != "*" {
			for _, r := range strings.Split(rd, ",") {
				sd.Reads = append(sd.Reads, strings.TrimSpace(r))
			}
		}
	}
	if kind == "pred" || tail == "" {
		sd.Ret = TypeExpr{Kind: "name", Name: "bool"}
	}
	if tail != "" {
		ty, err := parseTypeString(tail)
		if err != nil {
			return nil, err
		}
		sd.Ret = ty
	}
	if body != "" {
		e, err := parseExpr(body)
		if err != nil {
			return nil, err
		}
		sd.Body = e
	}
	return sd, nil
}

func firstWord(s string) string {
	s = strings.TrimSpace(s)
	for i := 0; i < len(s); i++ {
		if s[i] == ' ' || s[i] == '\t' {
			return s[:i]
		}
	}
	return s
}

// splitTop splits on sep at nesting depth 0 (parens, brackets).
func splitTop(s string, sep byte) []string {
	var out []string
	depth, start := 0, 0
	inStr := false
	for i := 0; i < len(s); i++ {
		c := s[i]
		if c == '"' {
			inStr = !inStr
		}
		if inStr {
			continue
		}
		switch c {
		case '(', '[', '{':
			depth++
		case ')', ']', '}':
			depth--
		}
		if c == sep && depth == 0 {
			out = append(out, s[start:i])
			start = i + 1
		}
	}
	out = append(out, s[start:])
	return out
}

// loadAllContracts loads the in-repo contract files and the trusted catalogue.
func loadAllContracts(repo, verif string, pkgDirs map[string]string) (*Contracts, error) {
	cs := newContracts()
	// trusted catalogue first so that in-repo specs may use its spec functions
	tfiles, _ := filepath.Glob(filepath.Join(verif, "contracts", "trusted", "*.spec"))
	sort.Strings(tfiles)
	for _, f := range tfiles {
		if err := cs.loadContractFile(f, ""); err != nil {
			return nil, err
		}
	}
	var pkgs []string
	for p := range pkgDirs {
		pkgs = append(pkgs, p)
	}
	sort.Strings(pkgs)
	for _, p := range pkgs {
		files, _ := filepath.Glob(filepath.Join(pkgDirs[p], "verif_contracts*.go"))
		sort.Strings(files)
		for _, f := range files {
			if err := cs.loadContractFile(f, p); err != nil {
				return nil, err
			}
		}
	}
	return cs, nil
}

// mergeExtensions folds `extend` declarations into their base contracts (after generation).
func (cs *Contracts) mergeExtensions() (*Contracts, error) {
	for _, ext := range cs.Extensions {
		id := ext.Options["$id"]
		base := cs.Funcs[id]
		if base == nil {
			// an extension of a catalogue (trusted / interface) contract from a package file
			if k := strings.Index(id, "::"); k >= 0 {
				base = cs.Funcs[id[k:]]
			}
		}
		if base == nil {
			return nil, fmt.Errorf("%s:%d: extend func %s: no such contract", ext.File, ext.Line, id)
		}
		base.Requires = append(base.Requires, ext.Requires...)
		base.Ensures = append(base.Ensures, ext.Ensures...)
		base.Assuming = append(base.Assuming, ext.Assuming...)
		base.Defines = append(base.Defines, ext.Defines...)
		base.Preserves = append(base.Preserves, ext.Preserves...)
		base.AtCalls = append(base.AtCalls, ext.AtCalls...)
		base.Modifies = append(base.Modifies, ext.Modifies...)
		base.Tags = append(base.Tags, ext.Tags...)
		base.Secrets = append(base.Secrets, ext.Secrets...)
		if ext.Untainted {
			base.Untainted = true
		}
		if ext.NoSafety {
			base.NoSafety = true
		}
		for k, v := range ext.Options {
			if k != "$id" {
				base.Options[k] = v
			}
		}
		if ext.ReturnsUntainted {
			base.ReturnsUntainted = true
		}
		for k, v := range ext.Loops {
			if b := base.Loops[k]; b != nil {
				b.Invariants = append(b.Invariants, v.Invariants...)
				b.Assumes = append(b.Assumes, v.Assumes...)
			} else {
				base.Loops[k] = v
			}
		}
	}
	return cs, nil
}
