package main

import (
	"fmt"
	"go/token"
	"go/types"
	"strings"

	"golang.org/x/tools/go/ssa"
)

// val returns the symbolic value of an SSA value.
func (vc *FnVC) val(v ssa.Value) Val {
	if x, ok := vc.vals[v]; ok {
		return x
	}
	switch c := v.(type) {
	case *ssa.Const:
		t := c.Type()
		if b, ok := t.Underlying().(*types.Basic); ok && b.Kind() == types.UntypedNil {
			return Val{k: vTerm, tv: TV{S: "0", Sort: sInt, Ty: t}}
		}
		if _, ok := t.Underlying().(*types.TypeParam); ok {
			panic(unsupported("constant of type parameter type"))
		}
		sort := vc.enc.sortOf(t)
		s := vc.enc.constTerm(c.Value, t)
		return Val{k: vTerm, tv: TV{S: s, Sort: sort, Ty: t}}
	case *ssa.Global:
		comp, sort := vc.globalComp(c)
		return Val{k: vLval, lv: &Lval{comp: comp, sort: sort, ref: "", ty: c.Type().(*types.Pointer).Elem()}}
	case *ssa.Function:
		return Val{k: vTerm, tv: TV{S: vc.funcRef(c), Sort: sInt, Ty: c.Type()}}
	case *ssa.Builtin:
		panic(unsupported("builtin used as a value"))
	}
	panic(fmt.Sprintf("internal: no value for %s (%T) in %s", v.Name(), v, vc.fn))
}

// funcRef is the constant reference denoting a static function value.
func (vc *FnVC) funcRef(f *ssa.Function) string {
	name := "fn$" + sanitize(f.String())
	if !vc.enc.declared[name] {
		vc.enc.declConst(name, sInt)
		vc.emit("(< " + name + " 0)")
	}
	// function references are negative and distinct by name through an id function
	vc.enc.declFun("fnid", []string{sInt}, sInt)
	return name
}

// term forces a value into a single SMT term (pointer term for lvalues).
func (vc *FnVC) term(v ssa.Value) TV {
	x := vc.val(v)
	switch x.k {
	case vTerm:
		return x.tv
	case vLval:
		return TV{S: vc.lvalPtr(x.lv), Sort: sInt, Ty: v.Type()}
	}
	panic(unsupported("tuple used as a term"))
}

// lvalPtr names the address of an lvalue as a pointer term. Addresses of fields are
// injective functions of the object reference (negative, hence distinct from allocated
// references); see DESIGN.md 2.3 (assumption: such escaping field addresses do not alias
// cells reached through ordinary pointers).
func (vc *FnVC) lvalPtr(lv *Lval) string {
	if lv.ref == "" {
		// address of a global
		name := "addr$" + lv.comp
		if !vc.enc.declared[name] {
			vc.enc.declConst(name, sInt)
			vc.enc.header = append(vc.enc.header, "(assert (< "+name+" 0))")
		}
		known := false
		for _, c := range vc.gaOrder {
			if c == lv.comp {
				known = true
			}
		}
		if !known {
			// addresses of distinct package variables are distinct
			for _, c := range vc.gaOrder {
				vc.emit(not(eq(name, "addr$"+c)))
			}
			vc.gaOrder = append(vc.gaOrder, lv.comp)
		}
		return name
	}
	fn := "fa$" + lv.comp
	if lv.idx == "" {
		vc.enc.declFun(fn, []string{sInt}, sInt)
		vc.enc.declFun("un"+fn, []string{sInt}, sInt)
		vc.enc.declFun("fakind", []string{sInt}, sInt)
		t := "(" + fn + " " + lv.ref + ")"
		if _, ok := vc.faComps[lv.comp]; !ok {
			vc.faComps[lv.comp] = faInfo{sort: lv.sort, kind: len(vc.faComps) + 1}
			vc.faOrder = append(vc.faOrder, lv.comp)
		}
		vc.emit(and(eq("(un"+fn+" "+t+")", lv.ref), "(< "+t+" 0)", eq("(fakind "+t+")", fmt.Sprint(vc.faComps[lv.comp].kind))))
		return t
	}
	vc.enc.declFun(fn, []string{sInt, sInt}, sInt)
	t := "(" + fn + " " + lv.ref + " " + lv.idx + ")"
	vc.emit("(< " + t + " 0)")
	vc.warn("escaping element address " + lv.comp)
	return t
}

func (vc *FnVC) warn(s string) {
	for _, w := range vc.warnings {
		if w == s {
			return
		}
	}
	vc.warnings = append(vc.warnings, s)
}

func (vc *FnVC) setTerm(v ssa.Value, s string) {
	sort := vc.enc.sortOf(v.Type())
	vc.vals[v] = Val{k: vTerm, tv: TV{S: s, Sort: sort, Ty: v.Type()}}
}

// define introduces a named constant for an SSA register.
func (vc *FnVC) define(v ssa.Value, s string) string {
	sort := vc.enc.sortOf(v.Type())
	name := vc.enc.declConst("v$"+sanitize(v.Name()), sort)
	if vc.enc.declared["used:"+name] {
		name = vc.enc.freshConst("v$"+sanitize(v.Name()), sort)
	}
	vc.enc.declared["used:"+name] = true
	vc.emit(eq(name, s))
	vc.vals[v] = Val{k: vTerm, tv: TV{S: name, Sort: sort, Ty: v.Type()}}
	return name
}

func (vc *FnVC) freshFor(v ssa.Value, st *State) string {
	sort := vc.enc.sortOf(v.Type())
	name := vc.enc.freshConst("v$"+sanitize(v.Name()), sort)
	vc.vals[v] = Val{k: vTerm, tv: TV{S: name, Sort: sort, Ty: v.Type()}}
	vc.assume(vc.typeInv(st, name, v.Type()))
	return name
}

func (vc *FnVC) safety(detail, goal string) {
	if goal == "true" {
		return
	}
	if vc.fc != nil && vc.fc.NoSafety {
		return
	}
	vc.oblige("safety", detail, goal, vc.safetyTags(), "")
}

// safetyTags: the properties the function's safety obligations belong to (option
// "safety-tags"; default: the function's tags).
func (vc *FnVC) safetyTags() []string {
	if vc.fc != nil {
		if t, ok := vc.fc.Options["safety-tags"]; ok {
			if t == "none" {
				return []string{"-"}
			}
			return strings.Fields(t)
		}
	}
	return vc.fnTags()
}

func describeValue(v ssa.Value) string {
	switch x := v.(type) {
	case *ssa.Parameter:
		return x.Name()
	case *ssa.FieldAddr:
		st := x.X.Type().Underlying().(*types.Pointer).Elem().Underlying().(*types.Struct)
		return describeValue(x.X) + "." + st.Field(x.Field).Name()
	case *ssa.Field:
		st := x.X.Type().Underlying().(*types.Struct)
		return describeValue(x.X) + "." + st.Field(x.Field).Name()
	case *ssa.UnOp:
		if x.Op == token.MUL {
			if fa, ok := x.X.(*ssa.FieldAddr); ok {
				return describeValue(fa)
			}
			return "*" + describeValue(x.X)
		}
	case *ssa.FreeVar:
		return x.Name()
	case *ssa.Phi:
		if x.Comment != "" {
			return x.Comment
		}
	case *ssa.Alloc:
		if x.Comment != "" {
			return x.Comment
		}
	case *ssa.Extract:
		return describeValue(x.Tuple) + "#" + fmt.Sprint(x.Index)
	case *ssa.Call:
		if f := x.Call.StaticCallee(); f != nil {
			return f.Name() + "()"
		}
		if x.Call.IsInvoke() {
			return x.Call.Method.Name() + "()"
		}
	case *ssa.IndexAddr:
		return describeValue(x.X) + "[]"
	case *ssa.Lookup:
		return describeValue(x.X) + "[]"
	case *ssa.TypeAssert:
		return describeValue(x.X) + ".(T)"
	case *ssa.Const:
		return x.String()
	}
	return v.Name()
}

func (vc *FnVC) nonNil(ptr ssa.Value, s string, what string) {
	if vc.freshRef[s] {
		return
	}
	if _, ok := ptr.(*ssa.Alloc); ok {
		return
	}
	if _, ok := ptr.(*ssa.Global); ok {
		return
	}
	if _, ok := ptr.(*ssa.FreeVar); ok {
		return
	}
	// already established for this term on every path to here?
	for _, b := range vc.nonNilAt[s] {
		if vc.curBlock != nil && (b == vc.curBlock || b.Dominates(vc.curBlock)) {
			return
		}
	}
	vc.nonNilAt[s] = append(vc.nonNilAt[s], vc.curBlock)
	vc.safety("nil("+what+")", not(eq(s, "0")))
}

func (vc *FnVC) instr(ins ssa.Instruction, st *State) {
	switch x := ins.(type) {
	case *ssa.DebugRef:
		return
	case *ssa.Alloc:
		vc.doAlloc(x, st)
	case *ssa.FieldAddr:
		vc.doFieldAddr(x, st)
	case *ssa.Field:
		sv := vc.term(x.X)
		vc.setTerm(x, fmt.Sprintf("(%s$%d %s)", sv.Sort, x.Field, sv.S))
	case *ssa.IndexAddr:
		vc.doIndexAddr(x, st)
	case *ssa.UnOp:
		vc.doUnOp(x, st)
	case *ssa.BinOp:
		vc.doBinOp(x, st)
	case *ssa.Store:
		vc.doStore(x, st)
	case *ssa.Call:
		vc.doCall(x, x.Common(), st)
	case *ssa.Defer:
		vc.deferred = append(vc.deferred, x)
		if x.Block() != vc.fn.Blocks[0] && !x.Block().Dominates(x.Block()) {
			// conditional defers are outside the subset unless they dominate all returns; checked at RunDefers
		}
	case *ssa.RunDefers:
		// handled at Return
	case *ssa.Extract:
		tv := vc.val(x.Tuple)
		if tv.k != vTuple {
			panic("internal: extract of non-tuple")
		}
		vc.vals[x] = tv.tup[x.Index]
	case *ssa.Convert:
		vc.doConvert(x, st)
	case *ssa.ChangeType:
		v := vc.val(x.X)
		if v.k == vTerm {
			if sst, ok := x.X.Type().Underlying().(*types.Struct); ok {
				// conversion between struct types with identical underlying types: rebuild the
				// value in the target's datatype, field by field
				from := vc.enc.sortOf(x.X.Type())
				to := vc.enc.sortOf(x.Type())
				if from != to {
					var fs []string
					for i := 0; i < sst.NumFields(); i++ {
						fs = append(fs, fmt.Sprintf("(%s$%d %s)", from, i, v.tv.S))
					}
					if len(fs) == 0 {
						v.tv.S = "mk$" + to
					} else {
						v.tv.S = "(mk$" + to + " " + strings.Join(fs, " ") + ")"
					}
					v.tv.Sort = to
				}
			}
			v.tv.Ty = x.Type()
		}
		vc.vals[x] = v
	case *ssa.ChangeInterface:
		v := vc.term(x.X)
		vc.vals[x] = Val{k: vTerm, tv: TV{S: v.S, Sort: sIface, Ty: x.Type()}}
	case *ssa.MakeInterface:
		vc.doMakeInterface(x, st)
	case *ssa.TypeAssert:
		vc.doTypeAssert(x, st)
	case *ssa.MakeMap:
		m := x.Type().Underlying().(*types.Map)
		mh, mv, ks, vs := vc.mapComps(m)
		r := vc.newRef(st, "map")
		vc.setCompFresh(st, mh, sto(vc.cur(st, mh), r, "((as const "+arraySort(ks, sBool)+") false)"))
		vc.setCompFresh(st, mv, sto(vc.cur(st, mv), r, "((as const "+arraySort(ks, vs)+") "+vc.enc.zero(m.Elem())+")"))
		vc.setCompFresh(st, mlOf(mh), sto(vc.cur(st, mlOf(mh)), r, "0"))
		vc.setTerm(x, r)
		if privateMap(x) {
			vc.privCells = append(vc.privCells, privCell{ref: r, comp: mh}, privCell{ref: r, comp: mv}, privCell{ref: r, comp: mlOf(mh)})
		}
	case *ssa.MakeSlice:
		sl := x.Type().Underlying().(*types.Slice)
		comp, es := vc.elemComp(sl.Elem())
		ln, cp := vc.term(x.Len).S, vc.term(x.Cap).S
		vc.safety("makeslice-len", and("(<= 0 "+ln+")", "(<= "+ln+" "+cp+")"))
		r := vc.newRef(st, "arr")
		vc.setCompFresh(st, comp, sto(vc.cur(st, comp), r, "((as const "+arraySort(sInt, es)+") "+vc.enc.zero(sl.Elem())+")"))
		vc.define(x, "(mk-slice "+r+" "+ln+" "+cp+")")
	case *ssa.MapUpdate:
		vc.doMapUpdate(x, st)
	case *ssa.Lookup:
		vc.doLookup(x, st)
	case *ssa.Slice:
		vc.doSlice(x, st)
	case *ssa.Range:
		vc.doRange(x, st)
	case *ssa.Next:
		vc.doNext(x, st)
	case *ssa.MakeClosure:
		vc.doMakeClosure(x, st)
	case *ssa.Index:
		if b, ok := x.X.Type().Underlying().(*types.Basic); ok && b.Info()&types.IsString != 0 {
			s, i := vc.term(x.X).S, vc.term(x.Index).S
			vc.safety("index("+describeValue(x.X)+")", and("(<= 0 "+i+")", "(< "+i+" (str.len "+s+"))"))
			name := vc.define(x, "(str.to_code (str.at "+s+" "+i+"))")
			vc.assume(and("(<= 0 "+name+")", "(< "+name+" 256)"))
			return
		}
		panic(unsupported("index of array value"))
	case *ssa.Go, *ssa.Select, *ssa.Send, *ssa.MakeChan:
		panic(unsupported("concurrency construct"))
	case *ssa.SliceToArrayPointer, *ssa.MultiConvert:
		panic(unsupported(fmt.Sprintf("%T", ins)))
	default:
		panic(unsupported(fmt.Sprintf("instruction %T", ins)))
	}
}

func (vc *FnVC) doAlloc(x *ssa.Alloc, st *State) {
	t := x.Type().(*types.Pointer).Elem()
	r := vc.newRef(st, "new")
	vc.setTerm(x, r)
	vc.zeroInit(st, r, t)
	if _, isStruct := t.Underlying().(*types.Struct); !isStruct && privateCell(x) {
		if _, isArr := t.Underlying().(*types.Array); !isArr {
			comp, _ := vc.cellComp(t)
			vc.privCells = append(vc.privCells, privCell{ref: r, comp: comp})
		}
	} else if !isStruct {
		if _, isArr := t.Underlying().(*types.Array); !isArr {
			inLoop := func(b *ssa.BasicBlock) bool {
				for _, li := range vc.loops {
					if li.body[b] || li.header == b {
						return true
					}
				}
				return false
			}
			if caps, ok := condPrivateCell(x, inLoop); ok {
				comp, _ := vc.cellComp(t)
				vc.privCells = append(vc.privCells, privCell{ref: r, comp: comp, caps: caps})
			}
		}
	}
}

// zeroInit assumes that the fresh object at r holds zero values.
func (vc *FnVC) zeroInit(st *State, r string, t types.Type) {
	switch u := t.Underlying().(type) {
	case *types.Struct:
		for i := 0; i < u.NumFields(); i++ {
			ft := u.Field(i).Type()
			if _, nested := ft.Underlying().(*types.Struct); nested {
				vc.zeroInit(st, vc.embPtr(t, i, r), ft)
				continue
			}
			comp, _, _ := vc.fieldComp(t, i)
			vc.emit(eq(sel(vc.cur(st, comp), r), vc.enc.zero(ft)))
		}
	case *types.Array:
		comp, es := vc.elemComp(u.Elem())
		vc.emit(eq(sel(vc.cur(st, comp), r), "((as const "+arraySort(sInt, es)+") "+vc.enc.zero(u.Elem())+")"))
	default:
		comp, _ := vc.cellComp(t)
		vc.emit(eq(sel(vc.cur(st, comp), r), vc.enc.zero(t)))
	}
}

// embPtr: address of an embedded (by value) struct field.
func (vc *FnVC) embPtr(structT types.Type, idx int, ref string) string {
	f := structT.Underlying().(*types.Struct).Field(idx)
	fn := "emb$" + typeShort(structT) + "$" + f.Name()
	vc.enc.declFun(fn, []string{sInt}, sInt)
	vc.enc.declFun("un"+fn, []string{sInt}, sInt)
	t := "(" + fn + " " + ref + ")"
	key := "embfact:" + t
	if !vc.enc.declared[key] && !strings.Contains(ref, "q$") && !strings.Contains(ref, "op$") {
		vc.enc.declared[key] = true
		vc.emit(and(eq("(un"+fn+" "+t+")", ref), "(< "+t+" 0)"))
	}
	if !vc.enc.declared["embax:"+fn] {
		// injectivity and sign of embedded-struct addresses, for every object
		vc.enc.declared["embax:"+fn] = true
		vc.enc.header = append(vc.enc.header, "(assert (forall ((r Int)) (! (and (= (un"+fn+" ("+fn+" r)) r) (< ("+fn+" r) 0)) :pattern (("+fn+" r)))))")
	}
	return t
}

func (vc *FnVC) doFieldAddr(x *ssa.FieldAddr, st *State) {
	structT := x.X.Type().Underlying().(*types.Pointer).Elem()
	base := vc.term(x.X)
	stt := structT.Underlying().(*types.Struct)
	f := stt.Field(x.Field)
	vc.nonNil(x.X, base.S, describeValue(x.X))
	if _, nested := f.Type().Underlying().(*types.Struct); nested {
		vc.setTerm(x, vc.embPtr(structT, x.Field, base.S))
		return
	}
	comp, sort, fty := vc.fieldComp(structT, x.Field)
	vc.vals[x] = Val{k: vLval, lv: &Lval{comp: comp, sort: sort, ref: base.S, ty: fty}}
}

func (vc *FnVC) doIndexAddr(x *ssa.IndexAddr, st *State) {
	idx := vc.term(x.Index).S
	var et types.Type
	var arr, off, ln string
	switch u := x.X.Type().Underlying().(type) {
	case *types.Slice:
		et = u.Elem()
		s := vc.term(x.X).S
		arr, off, ln = "(sl-arr "+s+")", "0", "(sl-len "+s+")"
	case *types.Pointer:
		at := u.Elem().Underlying().(*types.Array)
		et = at.Elem()
		arr, off, ln = vc.term(x.X).S, "0", fmt.Sprint(at.Len())
		vc.nonNil(x.X, arr, describeValue(x.X))
	default:
		panic(unsupported("IndexAddr on " + x.X.Type().String()))
	}
	vc.safety("index("+describeValue(x.X)+")", and("(<= 0 "+idx+")", "(< "+idx+" "+ln+")"))
	pos := idx
	if off != "0" {
		pos = "(+ " + off + " " + idx + ")"
	}
	if _, isStruct := et.Underlying().(*types.Struct); isStruct {
		fn := "eaddr$" + typeShort(et)
		vc.enc.declFun(fn, []string{sInt, sInt}, sInt)
		t := "(" + fn + " " + arr + " " + pos + ")"
		vc.emit("(< " + t + " 0)")
		vc.setTerm(x, t)
		return
	}
	comp, sort := vc.elemComp(et)
	if vc.useKeys {
		if _, isSlice := x.X.Type().Underlying().(*types.Slice); isSlice {
			a := sel(vc.cur(st, comp), arr)
			ev := sel(a, pos)
			// unfolding of the element set at the element read
			vc.assume(eq(vc.keysOf(sort, a, "(+ "+pos+" 1)"), sto(vc.keysOf(sort, a, pos), ev, "true")))
			vc.assume(sel(vc.keysOf(sort, a, ln), ev))
		}
	}
	vc.vals[x] = Val{k: vLval, lv: &Lval{comp: comp, sort: sort, ref: arr, idx: pos, ty: et}}
}

// loadPtr reads *p for a pointer term p to type t.
func (vc *FnVC) loadPtr(st *State, p string, t types.Type) string {
	if stt, ok := t.Underlying().(*types.Struct); ok {
		sortName := vc.enc.sortOf(t)
		if stt.NumFields() == 0 {
			return "mk$" + sortName
		}
		var fs []string
		for i := 0; i < stt.NumFields(); i++ {
			ft := stt.Field(i).Type()
			if _, nested := ft.Underlying().(*types.Struct); nested {
				fs = append(fs, vc.loadPtr(st, vc.embPtr(t, i, p), ft))
				continue
			}
			comp, _, _ := vc.fieldComp(t, i)
			fs = append(fs, sel(vc.cur(st, comp), p))
		}
		return "(mk$" + sortName + " " + strings.Join(fs, " ") + ")"
	}
	if _, ok := t.Underlying().(*types.Array); ok {
		panic(unsupported("load of array value"))
	}
	comp, sortS := vc.cellComp(t)
	res := sel(vc.cur(st, comp), p)
	// the pointer may be the address of a package-level variable taken in this function
	for _, gc := range vc.gaOrder {
		if vc.compSort[gc] == sortS {
			res = ite(eq(p, "addr$"+gc), vc.cur(st, gc), res)
		}
	}
	// the pointer may be the address of a field taken earlier in this function
	for i := len(vc.faOrder) - 1; i >= 0; i-- {
		fc := vc.faOrder[i]
		if vc.faComps[fc].sort != sortS {
			continue
		}
		res = ite(vc.isFieldAddr(p, fc), sel(vc.cur(st, fc), "(unfa$"+fc+" "+p+")"), res)
	}
	return res
}

// isFieldAddr: p is the address of a field of component comp.
func (vc *FnVC) isFieldAddr(p, comp string) string {
	return and("(< "+p+" 0)", eq("(fakind "+p+")", fmt.Sprint(vc.faComps[comp].kind)), eq(p, "(fa$"+comp+" (unfa$"+comp+" "+p+"))"))
}

func (vc *FnVC) storePtr(st *State, p string, t types.Type, v string) {
	if stt, ok := t.Underlying().(*types.Struct); ok {
		sortName := vc.enc.sortOf(t)
		for i := 0; i < stt.NumFields(); i++ {
			ft := stt.Field(i).Type()
			fv := fmt.Sprintf("(%s$%d %s)", sortName, i, v)
			if _, nested := ft.Underlying().(*types.Struct); nested {
				vc.storePtr(st, vc.embPtr(t, i, p), ft, fv)
				continue
			}
			comp, _, _ := vc.fieldComp(t, i)
			fr := vc.frameCheck(st, comp, p)
			vc.setCompF(st, comp, sto(vc.cur(st, comp), p, fv), fr)
		}
		return
	}
	if _, ok := t.Underlying().(*types.Array); ok {
		panic(unsupported("store of array value"))
	}
	comp, sortS := vc.cellComp(t)
	var anyFa []string
	for _, fc := range vc.faOrder {
		if vc.faComps[fc].sort != sortS {
			continue
		}
		is := vc.isFieldAddr(p, fc)
		anyFa = append(anyFa, is)
		obj := "(unfa$" + fc + " " + p + ")"
		vc.frameCheckGuarded(st, fc, obj, is)
		vc.setComp(st, fc, ite(is, sto(vc.cur(st, fc), obj, v), vc.cur(st, fc)))
	}
	if len(anyFa) == 0 {
		fr := vc.frameCheck(st, comp, p)
		vc.setCompF(st, comp, sto(vc.cur(st, comp), p, v), fr)
		return
	}
	isField := or(anyFa...)
	vc.frameCheckGuarded(st, comp, p, not(isField))
	vc.setComp(st, comp, ite(isField, vc.cur(st, comp), sto(vc.cur(st, comp), p, v)))
}

func (vc *FnVC) doUnOp(x *ssa.UnOp, st *State) {
	switch x.Op {
	case token.MUL: // load
		if c, ok := vc.constCapture[x.X]; ok {
			vc.vals[x] = Val{k: vTerm, tv: c}
			return
		}
		if al, ok := x.X.(*ssa.Alloc); ok {
			if v, ok := constCellAt(al, x); ok {
				if _, defined := vc.vals[v]; defined || isConst(v) {
					vc.vals[x] = vc.val(v)
					return
				}
			}
		}
		a := vc.val(x.X)
		t := x.Type()
		var s string
		if a.k == vLval {
			s = vc.loadLv(st, a.lv)
		} else {
			p := a.tv.S
			vc.nonNil(x.X, p, describeValue(x.X))
			s = vc.loadPtr(st, p, t)
		}
		name := vc.define(x, s)
		vc.assume(vc.typeInv(st, name, t))
	case token.NOT:
		vc.setTerm(x, not(vc.term(x.X).S))
	case token.SUB:
		v := vc.term(x.X)
		switch v.Sort {
		case sInt:
			b, _ := isIntegerType(x.Type())
			vc.define(x, wrapInt("(- "+v.S+")", b))
		case sF64, sF32:
			vc.define(x, "(fp.neg "+v.S+")")
		default:
			panic(unsupported("negation of " + v.Sort))
		}
	case token.XOR:
		panic(unsupported("bitwise complement"))
	case token.ARROW:
		panic(unsupported("channel receive"))
	default:
		panic(unsupported("unary " + x.Op.String()))
	}
}

func (vc *FnVC) doStore(x *ssa.Store, st *State) {
	a := vc.val(x.Addr)
	v := vc.term(x.Val)
	if a.k == vLval {
		ref := a.lv.ref
		fr := false
		if ref != "" {
			fr = vc.frameCheck(st, a.lv.comp, ref)
		} else {
			vc.frameCheck(st, a.lv.comp, "")
		}
		vc.storeLv(st, a.lv, v.S, fr)
		return
	}
	p := a.tv.S
	vc.nonNil(x.Addr, p, describeValue(x.Addr))
	t := x.Addr.Type().Underlying().(*types.Pointer).Elem()
	vc.storePtr(st, p, t, v.S)
}

// frameCheck: a write to component comp at ref must be allowed by the modifies clause or
// target an object allocated in this activation.
func (vc *FnVC) frameCheck(st *State, comp, ref string) (fresh bool) {
	if ref != "" && vc.freshRef[ref] {
		return true
	}
	if vc.fc == nil || vc.modAll {
		return false
	}
	var alts []string
	if ref != "" {
		alts = append(alts, "(> "+ref+" "+vc.cur(vc.entry, "alloc")+")")
		// addresses of embedded structs / elements of fresh objects
		alts = append(alts, vc.derivedFresh(ref)...)
	}
	inMod := false
	for _, m := range vc.modset {
		if m.comp != comp {
			continue
		}
		inMod = true
		if m.ref == "" {
			return false
		}
		if ref != "" {
			alts = append(alts, eq(ref, m.ref))
		}
	}
	vc.oblige("frame", comp, or(alts...), vc.fnTags(), "write outside the modifies clause")
	// the obligation is assumed from here on: with no modifies entry for this component the
	// target is an object allocated in this activation
	return !inMod && ref != ""
}

// derivedFresh: (emb$.. r) is fresh when r is.
func (vc *FnVC) derivedFresh(ref string) []string {
	if strings.HasPrefix(ref, "(emb$") {
		k := strings.Index(ref, " ")
		inner := ref[k+1 : len(ref)-1]
		if vc.freshRef[inner] {
			return []string{"true"}
		}
		out := []string{"(> " + inner + " " + vc.cur(vc.entry, "alloc") + ")"}
		out = append(out, vc.derivedFresh(inner)...)
		// or the embedding object is in the modifies set: handled by caller through m.ref equality on the emb term
		return out
	}
	return nil
}

func (vc *FnVC) doBinOp(x *ssa.BinOp, st *State) {
	l, r := vc.term(x.X), vc.term(x.Y)
	op := x.Op
	xt := x.X.Type()
	// comparisons
	switch op {
	case token.EQL, token.NEQ:
		// nil constants take the sort of the other side
		ls, rs := l.S, r.S
		if l.Sort != r.Sort {
			if isNilConst(x.X) {
				ls = vc.enc.zeroOfSort(r.Sort, nil)
			} else if isNilConst(x.Y) {
				rs = vc.enc.zeroOfSort(l.Sort, nil)
			} else {
				panic(unsupported(fmt.Sprintf("comparison of sorts %s and %s", l.Sort, r.Sort)))
			}
		}
		var e string
		switch l.Sort {
		case sF64, sF32:
			e = "(fp.eq " + ls + " " + rs + ")"
		case sSlice:
			// only comparison with nil is legal
			if isNilConst(x.Y) {
				e = eq("(sl-arr "+ls+")", "0")
			} else {
				e = eq("(sl-arr "+rs+")", "0")
			}
		default:
			e = eq(ls, rs)
		}
		if op == token.NEQ {
			e = not(e)
		}
		vc.setTerm(x, e)
		return
	case token.LSS, token.LEQ, token.GTR, token.GEQ:
		var e string
		switch l.Sort {
		case sInt:
			e = "(" + map[token.Token]string{token.LSS: "<", token.LEQ: "<=", token.GTR: ">", token.GEQ: ">="}[op] + " " + l.S + " " + r.S + ")"
		case sF64, sF32:
			e = "(" + map[token.Token]string{token.LSS: "fp.lt", token.LEQ: "fp.leq", token.GTR: "fp.gt", token.GEQ: "fp.geq"}[op] + " " + l.S + " " + r.S + ")"
		case sString:
			switch op {
			case token.LSS:
				e = "(str.< " + l.S + " " + r.S + ")"
			case token.LEQ:
				e = "(str.<= " + l.S + " " + r.S + ")"
			case token.GTR:
				e = "(str.< " + r.S + " " + l.S + ")"
			case token.GEQ:
				e = "(str.<= " + r.S + " " + l.S + ")"
			}
		default:
			panic(unsupported("ordering on " + l.Sort))
		}
		vc.setTerm(x, e)
		return
	}
	switch l.Sort {
	case sInt:
		b, _ := isIntegerType(xt)
		var e string
		switch op {
		case token.ADD:
			e = wrapInt("(+ "+l.S+" "+r.S+")", b)
		case token.SUB:
			e = wrapInt("(- "+l.S+" "+r.S+")", b)
		case token.MUL:
			e = wrapInt("(* "+l.S+" "+r.S+")", b)
		case token.QUO:
			vc.safety("div-by-zero", not(eq(r.S, "0")))
			// Go truncates toward zero
			e = wrapInt("(ite (>= "+l.S+" 0) (ite (> "+r.S+" 0) (div "+l.S+" "+r.S+") (- (div "+l.S+" (- "+r.S+")))) (ite (> "+r.S+" 0) (- (div (- "+l.S+") "+r.S+")) (div (- "+l.S+") (- "+r.S+"))))", b)
		case token.REM:
			vc.safety("div-by-zero", not(eq(r.S, "0")))
			e = "(ite (>= " + l.S + " 0) (mod " + l.S + " (ite (> " + r.S + " 0) " + r.S + " (- " + r.S + "))) (- (mod (- " + l.S + ") (ite (> " + r.S + " 0) " + r.S + " (- " + r.S + ")))))"
		case token.AND, token.OR, token.XOR, token.SHL, token.SHR, token.AND_NOT:
			// bit operations: uninterpreted (sound: result unconstrained within the type's range)
			n := vc.freshFor(x, st)
			_ = n
			vc.warn("bit operation treated as unconstrained: " + op.String())
			return
		default:
			panic(unsupported("int op " + op.String()))
		}
		vc.define(x, e)
	case sBool:
		switch op {
		case token.AND, token.LAND:
			vc.setTerm(x, and(l.S, r.S))
		case token.OR, token.LOR:
			vc.setTerm(x, or(l.S, r.S))
		default:
			panic(unsupported("bool op " + op.String()))
		}
	case sString:
		if op != token.ADD {
			panic(unsupported("string op " + op.String()))
		}
		vc.define(x, "(str.++ "+l.S+" "+r.S+")")
	case sF64, sF32:
		var e string
		switch op {
		case token.ADD:
			e = "(fp.add RNE " + l.S + " " + r.S + ")"
		case token.SUB:
			e = "(fp.sub RNE " + l.S + " " + r.S + ")"
		case token.MUL:
			e = "(fp.mul RNE " + l.S + " " + r.S + ")"
		case token.QUO:
			e = vc.fdiv(l.S, r.S)
		default:
			panic(unsupported("float op " + op.String()))
		}
		vc.define(x, e)
	default:
		panic(unsupported("binop on " + l.Sort))
	}
}

// fdiv: IEEE-754 division as an uninterpreted function with the exact special-case
// characterisation (native fp.div is too slow here; DESIGN.md appendix B).
func (vc *FnVC) fdiv(a, b string) string {
	vc.enc.declFun("fdiv", []string{sF64, sF64}, sF64)
	t := "(fdiv " + a + " " + b + ")"
	key := "fdivfact:" + t
	if !vc.enc.declared[key] {
		vc.enc.declared[key] = true
		nan := "(fp.isNaN " + t + ")"
		vc.emit(eq(nan, or("(fp.isNaN "+a+")", "(fp.isNaN "+b+")", and("(fp.isZero "+a+")", "(fp.isZero "+b+")"), and("(fp.isInfinite "+a+")", "(fp.isInfinite "+b+")"))))
		vc.emit(implies(and(not("(fp.isNaN "+a+")"), not("(fp.isInfinite "+a+")"), not("(fp.isZero "+a+")"), "(fp.isZero "+b+")"), "(fp.isInfinite "+t+")"))
		vc.emit(implies(and("(fp.isInfinite "+a+")", not("(fp.isNaN "+b+")"), not("(fp.isInfinite "+b+")")), "(fp.isInfinite "+t+")"))
		vc.emit(implies(and("(fp.isZero "+a+")", not("(fp.isNaN "+b+")"), not("(fp.isZero "+b+")")), "(fp.isZero "+t+")"))
		vc.emit(implies(and(not("(fp.isNaN "+a+")"), not("(fp.isInfinite "+a+")"), "(fp.isInfinite "+b+")"), "(fp.isZero "+t+")"))
	}
	return t
}

func isNilConst(v ssa.Value) bool {
	c, ok := v.(*ssa.Const)
	return ok && c.Value == nil && !isBasicNonNil(c.Type())
}

func isBasicNonNil(t types.Type) bool {
	b, ok := t.Underlying().(*types.Basic)
	return ok && b.Kind() != types.UntypedNil && b.Kind() != types.UnsafePointer
}

func (vc *FnVC) doConvert(x *ssa.Convert, st *State) {
	from, to := x.X.Type().Underlying(), x.Type().Underlying()
	v := vc.term(x.X)
	fb, fok := from.(*types.Basic)
	tb, tok := to.(*types.Basic)
	switch {
	case fok && tok && fb.Info()&types.IsInteger != 0 && tb.Info()&types.IsInteger != 0:
		flo, fhi := intRange(fb)
		tlo, thi := intRange(tb)
		if flo.Cmp(tlo) >= 0 && fhi.Cmp(thi) <= 0 {
			vc.setTerm(x, v.S)
			return
		}
		vc.define(x, wrapInt(v.S, tb))
	case fok && tok && fb.Info()&types.IsInteger != 0 && tb.Info()&types.IsFloat != 0:
		if tb.Kind() == types.Float32 {
			vc.define(x, "((_ to_fp 8 24) RNE (to_real "+v.S+"))")
		} else {
			vc.define(x, "((_ to_fp 11 53) RNE (to_real "+v.S+"))")
		}
	case fok && tok && fb.Info()&types.IsFloat != 0 && tb.Info()&types.IsFloat != 0:
		if fb.Kind() == tb.Kind() {
			vc.setTerm(x, v.S)
		} else if tb.Kind() == types.Float32 {
			vc.define(x, "((_ to_fp 8 24) RNE "+v.S+")")
		} else {
			vc.define(x, "((_ to_fp 11 53) RNE "+v.S+")")
		}
	case fok && tok && fb.Info()&types.IsFloat != 0 && tb.Info()&types.IsInteger != 0:
		// truncation toward zero; out-of-range is implementation-defined in Go: unconstrained
		lo, hi := intRange(tb)
		n := vc.freshFor(x, st)
		tr := "(fp.to_real (fp.roundToIntegral RTZ " + v.S + "))"
		inRange := and("(<= (to_real "+intLit(lo)+") "+tr+")", "(<= "+tr+" (to_real "+intLit(hi)+"))", not("(fp.isNaN "+v.S+")"), not("(fp.isInfinite "+v.S+")"))
		vc.assume(implies(inRange, eq("(to_real "+n+")", tr)))
	case fok && tok && fb.Info()&types.IsInteger != 0 && tb.Info()&types.IsString != 0:
		// string(byte/rune): single byte below 0x80, UTF-8 otherwise (kept abstract)
		vc.enc.declFun("utf8enc", []string{sInt}, sString)
		vc.define(x, ite("(and (<= 0 "+v.S+") (< "+v.S+" 128))", "(str.from_code "+v.S+")", "(utf8enc "+v.S+")"))
	case fok && tok && fb.Info()&types.IsString != 0 && tb.Info()&types.IsString != 0:
		vc.setTerm(x, v.S)
	case fok && fb.Info()&types.IsString != 0 && isByteSlice(to):
		// []byte(s): a fresh slice whose content is s (bytes tracked by ghost function)
		comp, _ := vc.elemComp(types.Typ[types.Uint8])
		r := vc.newRef(st, "arr")
		ln := "(str.len " + v.S + ")"
		name := vc.define(x, "(mk-slice "+r+" "+ln+" "+ln+")")
		vc.assume(eq(vc.bytesOf(vc.cur(st, comp), name), v.S))
	case tok && tb.Info()&types.IsString != 0 && isByteSlice(from):
		comp, _ := vc.elemComp(types.Typ[types.Uint8])
		vc.define(x, vc.bytesOf(vc.cur(st, comp), v.S))
	case tok && tb.Kind() == types.UnsafePointer, fok && fb.Kind() == types.UnsafePointer:
		panic(unsupported("unsafe.Pointer conversion"))
	default:
		if _, ok := to.(*types.Pointer); ok {
			vc.setTerm(x, v.S)
			return
		}
		panic(unsupported("conversion " + x.X.Type().String() + " -> " + x.Type().String()))
	}
}

func isByteSlice(t types.Type) bool {
	s, ok := t.Underlying().(*types.Slice)
	if !ok {
		return false
	}
	b, ok := s.Elem().Underlying().(*types.Basic)
	return ok && b.Kind() == types.Uint8
}

// bytesOf: the byte string held by a byte slice, as a function of the backing array
// content and the slice header.
func (vc *FnVC) bytesOf(elemArr, slice string) string {
	vc.enc.declFun("bytes$of", []string{arraySort(sInt, sInt), sInt}, sString)
	t := "(bytes$of (select " + elemArr + " (sl-arr " + slice + ")) (sl-len " + slice + "))"
	key := "bytesfact:" + t
	if !vc.enc.declared[key] {
		vc.enc.declared[key] = true
		vc.emit(eq("(str.len "+t+")", "(sl-len "+slice+")"))
	}
	return t
}

func (vc *FnVC) doMakeInterface(x *ssa.MakeInterface, st *State) {
	v := vc.term(x.X)
	t := x.X.Type()
	tag := vc.enc.typeTag(t)
	b := vc.enc.box(v.S, t)
	if f := vc.enc.boxFact(v.S, t); f != "true" {
		vc.emit(f)
	}
	vc.define(x, fmt.Sprintf("(mk-iface %d %s)", tag, b))
}

func (vc *FnVC) doTypeAssert(x *ssa.TypeAssert, st *State) {
	v := vc.term(x.X)
	at := x.AssertedType
	var ok, res string
	if _, isIface := at.Underlying().(*types.Interface); isIface {
		ok = vc.implementsPred(v.S, at)
		res = v.S
	} else {
		tag := vc.enc.typeTag(at)
		ok = eq("(if-tag "+v.S+")", fmt.Sprint(tag))
		res = vc.enc.unbox("(if-data "+v.S+")", at)
	}
	if _, isIface := at.Underlying().(*types.Interface); !isIface && vc.enc.sortOf(at) != sInt {
		// values of this dynamic type were made by boxing: box(unbox(d)) == d
		vc.emit(implies(ok, eq(vc.enc.box(res, at), "(if-data "+v.S+")")))
	}
	if x.CommaOk {
		okName := vc.enc.freshConst("ok$"+sanitize(x.Name()), sBool)
		vc.emit(eq(okName, ok))
		sort := vc.enc.sortOf(at)
		rName := vc.enc.freshConst("ta$"+sanitize(x.Name()), sort)
		vc.emit(eq(rName, ite(okName, res, vc.enc.zeroOfSort(sort, at))))
		vc.assume(vc.typeInv(st, rName, at))
		vc.vals[x] = Val{k: vTuple, tup: []Val{
			{k: vTerm, tv: TV{S: rName, Sort: sort, Ty: at}},
			{k: vTerm, tv: TV{S: okName, Sort: sBool, Ty: types.Typ[types.Bool]}},
		}}
		return
	}
	vc.safety("assert("+describeValue(x.X)+".("+typeShort(at)+"))", ok)
	name := vc.define(x, res)
	vc.assume(vc.typeInv(st, name, at))
}

// implementsPred: does the dynamic type of interface value v implement interface type it?
func (vc *FnVC) implementsPred(v string, it types.Type) string {
	iface := it.Underlying().(*types.Interface)
	if iface.NumMethods() == 0 {
		return not(eq("(if-tag "+v+")", "0"))
	}
	fn := "impl$" + typeShort(it)
	vc.enc.declFun(fn, []string{sInt}, sBool)
	key := "implfacts:" + fn
	if !vc.enc.declared[key] {
		vc.enc.declared[key] = true
		vc.emit(not("(" + fn + " 0)"))
	}
	// facts for the tags known so far
	for _, id := range vc.enc.tagIDs() {
		t := vc.enc.tagType[id]
		k := fmt.Sprintf("implfact:%s:%d", fn, id)
		if vc.enc.declared[k] {
			continue
		}
		vc.enc.declared[k] = true
		if types.Implements(t, iface) {
			vc.emit(fmt.Sprintf("(%s %d)", fn, id))
		} else {
			vc.emit(not(fmt.Sprintf("(%s %d)", fn, id)))
		}
	}
	return "(" + fn + " (if-tag " + v + "))"
}

// lockObligation: an access to a map held in a package variable declared `guarded ... by mutex`
// must happen with the mutex held (write lock for updates).
func (vc *FnVC) lockObligation(mapVal ssa.Value, write bool, st *State) {
	g := globalRoot(mapVal)
	if g == nil || g.Pkg == nil {
		return
	}
	gd, ok := vc.prog.cs.Guards[g.Pkg.Pkg.Path()+"::"+g.Name()]
	if !ok {
		return
	}
	mg, ok := g.Pkg.Members[gd.Mutex].(*ssa.Global)
	if !ok {
		panic(unsupported("guarded: no such mutex " + gd.Mutex))
	}
	mcomp, msort := vc.globalComp(mg)
	maddr := vc.lvalPtr(&Lval{comp: mcomp, sort: msort, ref: ""})
	env := vc.newEnv(st, vc.entry)
	wl := sel(vc.cur(st, vc.ghostCompByName(env, "wlocked")), maddr)
	rl := sel(vc.cur(st, vc.ghostCompByName(env, "rlocked")), maddr)
	goal := wl
	kind := "write"
	if !write {
		goal = or(wl, "(> "+rl+" 0)")
		kind = "read"
	}
	vc.oblige("lock", g.Name()+"/"+kind, goal, vc.fnTags(), "access to "+g.Name()+" requires "+gd.Mutex)
}

func (vc *FnVC) ghostCompByName(env *Env, name string) string {
	g, ok := vc.prog.cs.Ghosts[name]
	if !ok {
		panic(unsupported("ghost variable " + name + " is not declared (sync.spec)"))
	}
	c, _, _ := env.ghostComp(g)
	return c
}

func (vc *FnVC) doMapUpdate(x *ssa.MapUpdate, st *State) {
	vc.lockObligation(x.Map, true, st)
	m := vc.term(x.Map).S
	mt := x.Map.Type().Underlying().(*types.Map)
	mh, mv, _, _ := vc.mapComps(mt)
	k, v := vc.term(x.Key).S, vc.term(x.Value).S
	if !vc.freshRef[m] {
		vc.safety("nil-map-write("+describeValue(x.Map)+")", not(eq(m, "0")))
	}
	fr := vc.frameCheck(st, mh, m)
	has := sel(sel(vc.cur(st, mh), m), k)
	ml := vc.cur(st, mlOf(mh))
	if vc.coarseMapLen() {
		// a function that builds a map with many conditional insertions (a marshaller): the exact
		// element count (a chain of conditional increments) is what makes the solver search; keep
		// only its bounds. Strictly weaker knowledge, hence sound.
		l := vc.enc.freshConst("maplen", sInt)
		vc.emit(and("(<= "+sel(ml, m)+" "+l+")", "(<= "+l+" (+ "+sel(ml, m)+" 1))", "(>= "+l+" 1)"))
		vc.setCompF(st, mlOf(mh), sto(ml, m, l), fr)
	} else {
		vc.setCompF(st, mlOf(mh), sto(ml, m, ite(has, sel(ml, m), "(+ "+sel(ml, m)+" 1)")), fr)
	}
	vc.setCompF(st, mh, sto(vc.cur(st, mh), m, sto(sel(vc.cur(st, mh), m), k, "true")), fr)
	vc.setCompF(st, mv, sto(vc.cur(st, mv), m, sto(sel(vc.cur(st, mv), m), k, v)), fr)
}

// mapHas / mapGet: lookups with Go semantics (absent key reads as zero; nil map is empty).
func (vc *FnVC) mapHas(st *State, mt *types.Map, m, k string) string {
	mh, _, ks, _ := vc.mapComps(mt)
	if !strings.Contains(k, "q$") && !strings.Contains(k, "qk!") && len(vc.keyTerms[ks]) < 200 {
		dup := false
		for _, x := range vc.keyTerms[ks] {
			if x == k {
				dup = true
			}
		}
		if !dup {
			vc.keyTerms[ks] = append(vc.keyTerms[ks], k)
		}
	}
	return and(not(eq(m, "0")), sel(sel(vc.cur(st, mh), m), k))
}

// mapDom: the key set of a map as an array (nil map: empty).
func (vc *FnVC) mapDom(st *State, mt *types.Map, m string) string {
	mh, _, ks, _ := vc.mapComps(mt)
	return ite(eq(m, "0"), "((as const "+arraySort(ks, sBool)+") false)", sel(vc.cur(st, mh), m))
}

func (vc *FnVC) mapGet(st *State, mt *types.Map, m, k string) string {
	_, mv, _, _ := vc.mapComps(mt)
	return ite(vc.mapHas(st, mt, m, k), sel(sel(vc.cur(st, mv), m), k), vc.enc.zero(mt.Elem()))
}

func (vc *FnVC) doLookup(x *ssa.Lookup, st *State) {
	switch u := x.X.Type().Underlying().(type) {
	case *types.Map:
		vc.lockObligation(x.X, false, st)
		m, k := vc.term(x.X).S, vc.term(x.Index).S
		has := vc.mapHas(st, u, m, k)
		get := vc.mapGet(st, u, m, k)
		// a present key implies a non-empty map
		mhx, _, _, _ := vc.mapComps(u)
		vc.assume(implies(has, "(> "+sel(vc.cur(st, mlOf(mhx)), m)+" 0)"))
		if g := globalRoot(x.X); g != nil && g.Pkg != nil && vc.prog.cs.MapNonNil[g.Pkg.Pkg.Path()+"::"+g.Name()] {
			// registry declared `global mapvalues-nonnil`: a present key holds a non-nil value
			// (A6: registrations pass non-nil values; module registration sites are scanned)
			vc.usedMapNonNil[g] = true
			vc.assume(implies(has, not(eq(sel(sel(vc.cur(st, mvCompOf(vc, u)), m), k), vc.enc.zero(u.Elem())))))
		}
		if x.CommaOk {
			vs := vc.enc.sortOf(u.Elem())
			vn := vc.enc.freshConst("v$"+sanitize(x.Name()), vs)
			on := vc.enc.freshConst("ok$"+sanitize(x.Name()), sBool)
			vc.emit(eq(vn, get))
			vc.emit(eq(on, has))
			vc.assume(vc.typeInv(st, vn, u.Elem()))
			vc.vals[x] = Val{k: vTuple, tup: []Val{
				{k: vTerm, tv: TV{S: vn, Sort: vs, Ty: u.Elem()}},
				{k: vTerm, tv: TV{S: on, Sort: sBool, Ty: types.Typ[types.Bool]}},
			}}
			return
		}
		name := vc.define(x, get)
		vc.assume(vc.typeInv(st, name, u.Elem()))
	case *types.Basic: // string index
		s, i := vc.term(x.X).S, vc.term(x.Index).S
		vc.safety("index("+describeValue(x.X)+")", and("(<= 0 "+i+")", "(< "+i+" (str.len "+s+"))"))
		name := vc.define(x, "(str.to_code (str.at "+s+" "+i+"))")
		vc.assume(and("(<= 0 "+name+")", "(< "+name+" 256)"))
	default:
		panic(unsupported("lookup on " + x.X.Type().String()))
	}
}

func (vc *FnVC) doSlice(x *ssa.Slice, st *State) {
	switch u := x.X.Type().Underlying().(type) {
	case *types.Basic: // string
		s := vc.term(x.X).S
		lo, hi := "0", "(str.len "+s+")"
		if x.Low != nil {
			lo = vc.term(x.Low).S
		}
		if x.High != nil {
			hi = vc.term(x.High).S
		}
		vc.safety("slice-bounds("+describeValue(x.X)+")", and("(<= 0 "+lo+")", "(<= "+lo+" "+hi+")", "(<= "+hi+" (str.len "+s+"))"))
		vc.define(x, "(str.substr "+s+" "+lo+" (- "+hi+" "+lo+"))")
	case *types.Slice:
		s := vc.term(x.X).S
		lo, hi, mx := "0", "(sl-len "+s+")", "(sl-cap "+s+")"
		if x.Low != nil {
			lo = vc.term(x.Low).S
		}
		if x.High != nil {
			hi = vc.term(x.High).S
		}
		if x.Max != nil {
			mx = vc.term(x.Max).S
		}
		vc.safety("slice-bounds("+describeValue(x.X)+")", and("(<= 0 "+lo+")", "(<= "+lo+" "+hi+")", "(<= "+hi+" "+mx+")", "(<= "+mx+" (sl-cap "+s+"))"))
		if lo == "0" {
			vc.define(x, "(mk-slice (sl-arr "+s+") "+hi+" "+mx+")")
		} else {
			// a reslice with a non-zero low bound is modelled as a view: a fresh backing array
			// holding the shifted content (assumption: writes through it are not observed
			// through the original slice; listed in the evidence)
			vc.enc.usedAssumptions["reslice s[lo:hi] with lo>0 is a copy: writes through it are not observed through s"] = true
			comp, es := vc.elemComp(u.Elem())
			r := vc.newRef(st, "view")
			nc := vc.enc.freshConst("viewc", arraySort(sInt, es))
			q := vc.enc.freshName("qi")
			vc.assume("(forall ((" + q + " Int)) (! (= (select " + nc + " " + q + ") (select (select " + vc.cur(st, comp) + " (sl-arr " + s + ")) (+ " + q + " " + lo + "))) :pattern ((select " + nc + " " + q + "))))")
			vc.setCompFresh(st, comp, sto(vc.cur(st, comp), r, nc))
			vc.define(x, "(mk-slice "+r+" (- "+hi+" "+lo+") (- "+mx+" "+lo+"))")
		}
	case *types.Pointer: // *array
		at := u.Elem().Underlying().(*types.Array)
		p := vc.term(x.X).S
		n := fmt.Sprint(at.Len())
		lo, hi := "0", n
		if x.Low != nil {
			lo = vc.term(x.Low).S
		}
		if x.High != nil {
			hi = vc.term(x.High).S
		}
		vc.safety("slice-bounds("+describeValue(x.X)+")", and("(<= 0 "+lo+")", "(<= "+lo+" "+hi+")", "(<= "+hi+" "+n+")"))
		if lo != "0" {
			panic(unsupported("slice of array with non-zero low bound"))
		}
		vc.define(x, "(mk-slice "+p+" "+hi+" "+n+")")
	default:
		panic(unsupported("slice of " + x.X.Type().String()))
	}
}

// ---- range over maps / strings ----

func (vc *FnVC) seenCompFor(rg *ssa.Range) string {
	if c, ok := vc.rangeSeen[rg]; ok {
		return c
	}
	mt, ok := rg.X.Type().Underlying().(*types.Map)
	if !ok {
		panic(unsupported("range over " + rg.X.Type().String()))
	}
	ks := vc.enc.sortOf(mt.Key())
	c := "Seen$" + sanitize(rg.Name())
	vc.regComp(c, arraySort(ks, sBool))
	vc.rangeSeen[rg] = c
	return c
}

// posCompFor: ghost byte position of a range-over-string iterator.
func (vc *FnVC) posCompFor(rg *ssa.Range) string {
	c := "Pos$" + sanitize(rg.Name())
	vc.regComp(c, sInt)
	return c
}

// runePrefix: number of runes in s[:p] (p at a rune boundary), uninterpreted with unfolding
// facts emitted by the string iterator.
func (vc *FnVC) runePrefix(s, p string) string {
	vc.enc.declFun("runesPrefix", []string{sString, sInt}, sInt)
	return "(runesPrefix " + s + " " + p + ")"
}

func (vc *FnVC) doRange(x *ssa.Range, st *State) {
	mt, ok := x.X.Type().Underlying().(*types.Map)
	if !ok {
		// range over a string: the iterator is a byte position
		s := vc.term(x.X).S
		c := vc.posCompFor(x)
		vc.setComp(st, c, "0")
		vc.emit(eq(vc.runePrefix(s, "0"), "0"))
		vc.vals[x] = Val{k: vTerm, tv: TV{S: s, Sort: sString, Ty: x.X.Type()}}
		return
	}
	vc.lockObligation(x.X, false, st)
	ks := vc.enc.sortOf(mt.Key())
	c := vc.seenCompFor(x)
	vc.setComp(st, c, "((as const "+arraySort(ks, sBool)+") false)")
	vc.vals[x] = Val{k: vTerm, tv: TV{S: vc.term(x.X).S, Sort: sInt, Ty: x.X.Type()}} // the iterator value is the map itself
}

func (vc *FnVC) doNext(x *ssa.Next, st *State) {
	rg, ok := x.Iter.(*ssa.Range)
	if !ok {
		panic(unsupported("next on unknown iterator"))
	}
	if x.IsString {
		// Go spec, "For statements with range clause": successive UTF-8 encoded code points;
		// invalid UTF-8 yields U+FFFD (so a surrogate is never produced) and advances one byte.
		s := vc.term(rg.X).S
		c := vc.posCompFor(rg)
		pos := vc.cur(st, c)
		okN := vc.enc.freshConst("ok$"+sanitize(x.Name()), sBool)
		rN := vc.enc.freshConst("rune$"+sanitize(x.Name()), sInt)
		wN := vc.enc.freshConst("width$"+sanitize(x.Name()), sInt)
		vc.emit(eq(okN, "(< "+pos+" (str.len "+s+"))"))
		vc.assume(implies(okN, and("(<= 1 "+wN+")", "(<= "+wN+" 4)", "(<= (+ "+pos+" "+wN+") (str.len "+s+"))",
			"(<= 0 "+rN+")", "(<= "+rN+" 1114111)", not(and("(<= 55296 "+rN+")", "(< "+rN+" 57344)")),
			eq(vc.runePrefix(s, "(+ "+pos+" "+wN+")"), "(+ "+vc.runePrefix(s, pos)+" 1)"))))
		kN := vc.enc.freshConst("k$"+sanitize(x.Name()), sInt)
		vc.emit(eq(kN, pos))
		vc.setComp(st, c, ite(okN, "(+ "+pos+" "+wN+")", pos))
		vc.vals[x] = Val{k: vTuple, tup: []Val{
			{k: vTerm, tv: TV{S: okN, Sort: sBool, Ty: types.Typ[types.Bool]}},
			{k: vTerm, tv: TV{S: kN, Sort: sInt, Ty: types.Typ[types.Int]}},
			{k: vTerm, tv: TV{S: rN, Sort: sInt, Ty: types.Typ[types.Rune]}},
		}}
		return
	}
	mt := rg.X.Type().Underlying().(*types.Map)
	c := vc.seenCompFor(rg)
	m := vc.term(rg.X).S
	ks, vs := vc.enc.sortOf(mt.Key()), vc.enc.sortOf(mt.Elem())
	okN := vc.enc.freshConst("ok$"+sanitize(x.Name()), sBool)
	kN := vc.enc.freshConst("k$"+sanitize(x.Name()), ks)
	vN := vc.enc.freshConst("v$"+sanitize(x.Name()), vs)
	seen := vc.cur(st, c)
	// ok  ==> key is in the map, not yet seen; value is the map's value
	vc.assume(implies(okN, and(vc.mapHas(st, mt, m, kN), not(sel(seen, kN)), eq(vN, vc.mapGet(st, mt, m, kN)))))
	// !ok ==> every key has been seen
	q := vc.enc.freshName("qk")
	vc.assume(implies(not(okN), "(forall (("+q+" "+ks+")) (=> "+vc.mapHas(st, mt, m, q)+" (select "+seen+" "+q+")))"))
	// the same fact at the level of sets (quantifier-free): at exhaustion the set of keys seen is
	// the key set of the map (seen is always a subset of it)
	vc.assume(implies(not(okN), eq(seen, vc.mapDom(st, mt, m))))
	vc.assume(vc.typeInv(st, kN, mt.Key()))
	vc.assume(vc.typeInv(st, vN, mt.Elem()))
	vc.setComp(st, c, ite(okN, sto(seen, kN, "true"), seen))
	vc.vals[x] = Val{k: vTuple, tup: []Val{
		{k: vTerm, tv: TV{S: okN, Sort: sBool, Ty: types.Typ[types.Bool]}},
		{k: vTerm, tv: TV{S: kN, Sort: ks, Ty: mt.Key()}},
		{k: vTerm, tv: TV{S: vN, Sort: vs, Ty: mt.Elem()}},
	}}
}

// ---- closures ----

func (vc *FnVC) closureComps(mc *ssa.MakeClosure) []string {
	fn := mc.Fn.(*ssa.Function)
	var out []string
	vc.regComp("ClosFn", arraySort(sInt, sInt))
	out = append(out, "ClosFn")
	for i, fv := range fn.FreeVars {
		c := fmt.Sprintf("Bind$%s$%d", sanitize(fn.Name()), i)
		vc.regComp(c, arraySort(sInt, vc.enc.sortOf(fv.Type())))
		out = append(out, c)
	}
	return out
}

func (vc *FnVC) doMakeClosure(x *ssa.MakeClosure, st *State) {
	fn := x.Fn.(*ssa.Function)
	comps := vc.closureComps(x)
	r := vc.newRef(st, "clos")
	vc.setCompFresh(st, "ClosFn", sto(vc.cur(st, "ClosFn"), r, vc.funcRef(fn)))
	for i, b := range x.Bindings {
		c := comps[i+1]
		vc.setCompFresh(st, c, sto(vc.cur(st, c), r, vc.term(b).S))
	}
	vc.setTerm(x, r)
}

func mvCompOf(vc *FnVC, m *types.Map) string {
	_, mv, _, _ := vc.mapComps(m)
	return mv
}

// coarseMapLen: more than eight map insertions in the function.
func (vc *FnVC) coarseMapLen() bool {
	if vc.nMapUpdates < 0 {
		vc.nMapUpdates = 0
		for _, b := range vc.fn.Blocks {
			for _, ins := range b.Instrs {
				if _, ok := ins.(*ssa.MapUpdate); ok {
					vc.nMapUpdates++
				}
			}
		}
	}
	return vc.nMapUpdates > 8
}
