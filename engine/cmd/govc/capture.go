package main

import (
	"go/token"

	"golang.org/x/tools/go/ssa"
)

// immutableCapture reports whether free variable idx of fn denotes a captured variable that is
// assigned at most once (its initialisation in the enclosing function) and whose address never
// escapes other than into closures that only read it. Such a captured variable is a constant
// for the closure.
func immutableCapture(fn *ssa.Function, idx int) bool {
	parent := fn.Parent()
	if parent == nil {
		return false
	}
	var cell ssa.Value
	found := false
	for _, b := range parent.Blocks {
		for _, ins := range b.Instrs {
			mc, ok := ins.(*ssa.MakeClosure)
			if !ok || mc.Fn != fn {
				continue
			}
			if found && mc.Bindings[idx] != cell {
				return false
			}
			cell = mc.Bindings[idx]
			found = true
		}
	}
	if !found {
		return false
	}
	switch c := cell.(type) {
	case *ssa.Alloc:
		stores := 0
		return onlyReads(c, &stores, map[ssa.Value]bool{}) && stores <= 1
	case *ssa.FreeVar:
		for i, fv := range parent.FreeVars {
			if fv == c {
				if !immutableCapture(parent, i) {
					return false
				}
				stores := 0
				return onlyReads(c, &stores, map[ssa.Value]bool{}) && stores == 0
			}
		}
	}
	return false
}

// onlyReads: every use of the cell address is a load, a (counted) store to it, or a capture by
// a closure that itself only reads it.
func onlyReads(cell ssa.Value, stores *int, seen map[ssa.Value]bool) bool {
	if seen[cell] {
		return true
	}
	seen[cell] = true
	refs := cell.Referrers()
	if refs == nil {
		return false
	}
	for _, r := range *refs {
		switch x := r.(type) {
		case *ssa.UnOp:
			if x.Op != token.MUL {
				return false
			}
		case *ssa.Store:
			if x.Addr != cell {
				return false // the address itself is stored somewhere
			}
			*stores++
		case *ssa.MakeClosure:
			g := x.Fn.(*ssa.Function)
			for j, b := range x.Bindings {
				if b == cell {
					n := 0
					if !onlyReads(g.FreeVars[j], &n, seen) || n != 0 {
						return false
					}
				}
			}
		case *ssa.DebugRef:
		default:
			return false
		}
	}
	return true
}

// constCell: a local variable cell that is assigned exactly once, in the entry block, and whose
// address is otherwise only loaded from or captured by closures that only read it. Every load
// from it yields the assigned value.
func constCell(a *ssa.Alloc) (ssa.Value, bool) {
	stores := 0
	if !onlyReads(a, &stores, map[ssa.Value]bool{}) || stores != 1 {
		return nil, false
	}
	for _, r := range *a.Referrers() {
		if st, ok := r.(*ssa.Store); ok && st.Addr == a {
			return st.Val, true
		}
	}
	return nil, false
}

// constCellAt: as constCell, for a load at the given instruction: the single store must
// dominate it.
func constCellAt(a *ssa.Alloc, load ssa.Instruction) (ssa.Value, bool) {
	v, ok := constCell(a)
	if !ok {
		return nil, false
	}
	for _, r := range *a.Referrers() {
		st, isStore := r.(*ssa.Store)
		if !isStore || st.Addr != a {
			continue
		}
		if st.Block() == load.Block() {
			for _, ins := range st.Block().Instrs {
				if ins == st {
					return v, true
				}
				if ins == load {
					return nil, false
				}
			}
		}
		if st.Block().Dominates(load.Block()) {
			return v, true
		}
	}
	return nil, false
}

// privateCell: a local variable cell that only this function writes: its address is used for
// loads and stores here and captured by closures that only read it. A callee cannot change it.
func privateCell(a *ssa.Alloc) bool {
	refs := a.Referrers()
	if refs == nil {
		return false
	}
	for _, r := range *refs {
		switch x := r.(type) {
		case *ssa.UnOp:
		case *ssa.DebugRef:
		case *ssa.Store:
			if x.Addr != a {
				return false
			}
		case *ssa.MakeClosure:
			g := x.Fn.(*ssa.Function)
			for j, b := range x.Bindings {
				if b == a {
					n := 0
					if !onlyReads(g.FreeVars[j], &n, map[ssa.Value]bool{}) || n != 0 {
						return false
					}
				}
			}
		default:
			return false
		}
	}
	return true
}

// privateMap: a map created here and only used by this function's own lookups, updates,
// deletes, ranges and len: no callee can reach it.
func privateMap(m *ssa.MakeMap) bool {
	refs := m.Referrers()
	if refs == nil {
		return false
	}
	for _, r := range *refs {
		switch x := r.(type) {
		case *ssa.MapUpdate:
			if x.Map != m {
				return false
			}
		case *ssa.Lookup:
			if x.X != m {
				return false
			}
		case *ssa.Range, *ssa.DebugRef:
		case *ssa.Call:
			b, ok := x.Call.Value.(*ssa.Builtin)
			if !ok || (b.Name() != "len" && b.Name() != "delete") {
				return false
			}
		default:
			return false
		}
	}
	return true
}

// condPrivateCell: a local variable cell whose address is used only for loads and stores here and
// captured by closures (which may write it). Until one of the capturing closures has been created
// on the path taken, no callee can reach the cell. Returns the capturing instructions; ok=false when
// the address escapes in any other way, or when the cell or a capture sits inside a loop (where the
// per-iteration reachability constants do not tell whether an earlier iteration captured it).
func condPrivateCell(a *ssa.Alloc, inLoop func(*ssa.BasicBlock) bool) ([]ssa.Instruction, bool) {
	refs := a.Referrers()
	if refs == nil || inLoop(a.Block()) {
		return nil, false
	}
	var caps []ssa.Instruction
	for _, r := range *refs {
		switch x := r.(type) {
		case *ssa.UnOp:
		case *ssa.DebugRef:
		case *ssa.Store:
			if x.Addr != a {
				return nil, false
			}
		case *ssa.MakeClosure:
			if inLoop(x.Block()) {
				return nil, false
			}
			caps = append(caps, x)
		default:
			return nil, false
		}
	}
	return caps, len(caps) > 0
}
