package main

import (
	"go/token"

	"golang.org/x/tools/go/ssa"
)

// immutableCapture reports whether free variable idx of fn denotes a captured variable that is
// assigned at most once (its initialisation in the enclosing function) and whose address never
// escapes other than into closures that only read it. Such a captured variable is a constant
// for the closure.
func immutableCapture(fn *ssa.Function, idx int) bool {
	parent := fn.Parent()
	if parent == nil {
		return false
	}
	var cell ssa.Value
	found := false
	for _, b := range parent.Blocks {
		for _, ins := range b.Instrs {
			mc, ok := ins.(*ssa.MakeClosure)
			if !ok || mc.Fn != fn {
				continue
			}
			if found && mc.Bindings[idx] != cell {
				return false
			}
			cell = mc.Bindings[idx]
			found = true
		}
	}
	if !found {
		return false
	}
	switch c := cell.(type) {
	case *ssa.Alloc:
		stores := 0
		return onlyReads(c, &stores, map[ssa.Value]bool{}) && stores <= 1
	case *ssa.FreeVar:
		for i, fv := range parent.FreeVars {
			if fv == c {
				if !immutableCapture(parent, i) {
					return false
				}
				stores := 0
				return onlyReads(c, &stores, map[ssa.Value]bool{}) && stores == 0
			}
		}
	}
	return false
}

// onlyReads: every use of the cell address is a load, a (counted) store to it, or a capture by
// a closure that itself only reads it.
func onlyReads(cell ssa.Value, stores *int, seen map[ssa.Value]bool) bool {
	if seen[cell] {
		return true
	}
	seen[cell] = true
	refs := cell.Referrers()
	if refs == nil {
		return false
	}
	for _, r := range *refs {
		switch x := r.(type) {
		case *ssa.UnOp:
			if x.Op != token.MUL {
				return false
			}
		case *ssa.Store:
			if x.Addr != cell {
				return false // the address itself is stored somewhere
			}
			*stores++
		case *ssa.MakeClosure:
			g := x.Fn.(*ssa.Function)
			for j, b := range x.Bindings {
				if b == cell {
					n := 0
					if !onlyReads(g.FreeVars[j], &n, seen) || n != 0 {
						return false
					}
				}
			}
		case *ssa.DebugRef:
		default:
			return false
		}
	}
	return true
}
