package main

import (
	"go/token"
	"fmt"
	"go/types"
	"sort"
	"strings"

	"golang.org/x/tools/go/ssa"
)

// ---- modifies clauses ----

// evalLoc resolves one location of a modifies clause in env.
func (e *Env) evalLoc(loc string) []modLoc {
	vc := e.vc
	loc = strings.TrimSpace(loc)
	// ghost variable (whole) or ghost[key]
	if g, ok := vc.prog.cs.Ghosts[loc]; ok {
		c, _, _ := e.ghostComp(g)
		return []modLoc{{comp: c}}
	}
	if k := strings.Index(loc, "["); k > 0 && strings.HasSuffix(loc, "]") {
		if g, ok := vc.prog.cs.Ghosts[loc[:k]]; ok {
			c, _, _ := e.ghostComp(g)
			key, err := parseExpr(loc[k+1 : len(loc)-1])
			if err != nil {
				e.fail("modifies: %v", err)
			}
			return []modLoc{{comp: c, ref: e.tr(key).S}}
		}
	}
	// type-level: every slice / map of this type
	if strings.HasPrefix(loc, "[]") || strings.HasPrefix(loc, "map[") {
		var out []modLoc
		for _, c := range e.compsOfLocSpec(loc) {
			out = append(out, modLoc{comp: c})
		}
		return out
	}
	if strings.HasPrefix(loc, "*") {
		name := strings.TrimSpace(loc[1:])
		first := name
		if j := strings.IndexAny(name, ".[("); j >= 0 {
			first = name[:j]
		}
		_, isVar := e.vars[first]
		_, isCap := e.vars["&"+first]
		if !isVar && !isCap && first != "result" && first != "self" {
			var out []modLoc
			for _, c := range e.compsOfLocSpec(loc) {
				out = append(out, modLoc{comp: c})
			}
			return out
		}
	}
	// X[*] : contents of a map or slice
	if strings.HasSuffix(loc, "[*]") {
		x, err := parseExpr(loc[:len(loc)-3])
		if err != nil {
			e.fail("modifies: %v", err)
		}
		v := e.tr(x)
		if v.Ty == nil {
			e.fail("modifies: untyped %s", loc)
		}
		switch u := v.Ty.Underlying().(type) {
		case *types.Map:
			mh, mv, _, _ := vc.mapComps(u)
			return []modLoc{{mh, v.S}, {mv, v.S}, {mlOf(mh), v.S}}
		case *types.Slice:
			c, _ := vc.elemComp(u.Elem())
			return []modLoc{{c, "(sl-arr " + v.S + ")"}}
		}
		e.fail("modifies: %s is neither map nor slice", loc)
	}
	// global variable
	if e.pkg != nil && !strings.ContainsAny(loc, ".*[") {
		if obj, ok := e.pkg.Scope().Lookup(loc).(*types.Var); ok {
			if sp := vc.prog.ssaPkgs[obj.Pkg().Path()]; sp != nil {
				if g, ok := sp.Members[obj.Name()].(*ssa.Global); ok {
					c, _ := vc.globalComp(g)
					return []modLoc{{comp: c}}
				}
			}
		}
	}
	// *X
	if strings.HasPrefix(loc, "*") {
		name := strings.TrimSpace(loc[1:])
		if v, ok := e.vars[name]; ok && v.k == vLval {
			return []modLoc{{v.lv.comp, v.lv.ref}}
		}
		x, err := parseExpr(name)
		if err != nil {
			e.fail("modifies: %v", err)
		}
		v := e.tr(x)
		pt, ok := v.Ty.Underlying().(*types.Pointer)
		if !ok {
			e.fail("modifies: *%s is not a pointer", name)
		}
		return e.objLocs(v.S, pt.Elem())
	}
	// X.* / X.f / Type.f / Type.*
	k := strings.LastIndex(loc, ".")
	if k < 0 {
		e.fail("modifies: cannot resolve %q", loc)
	}
	head, fname := loc[:k], loc[k+1:]
	// expression?
	isExpr := false
	first := head
	if j := strings.IndexAny(head, ".[("); j >= 0 {
		first = head[:j]
	}
	if _, ok := e.vars[first]; ok {
		isExpr = true
	}
	if _, ok := e.vars["&"+first]; ok {
		isExpr = true
	}
	if first == "result" || first == "self" {
		isExpr = true
	}
	if !isExpr {
		// type-level: whole components
		var out []modLoc
		for _, c := range e.compsOfLocSpec(loc) {
			out = append(out, modLoc{comp: c})
		}
		return out
	}
	x, err := parseExpr(head)
	if err != nil {
		e.fail("modifies: %v", err)
	}
	v := e.tr(x)
	if v.Ty == nil {
		e.fail("modifies: untyped %s", head)
	}
	pt, ok := v.Ty.Underlying().(*types.Pointer)
	if !ok {
		e.fail("modifies: %s is not a pointer", head)
	}
	if fname == "*" {
		return e.objLocs(v.S, pt.Elem())
	}
	// single field (possibly promoted)
	obj, path, _ := types.LookupFieldOrMethod(v.Ty, true, e.pkgOfType(v.Ty), fname)
	if _, ok := obj.(*types.Var); !ok {
		e.fail("modifies: no field %s in %s", fname, v.Ty)
	}
	ref := v.S
	t := pt.Elem()
	for i, idx := range path {
		stt := t.Underlying().(*types.Struct)
		f := stt.Field(idx)
		if i == len(path)-1 {
			if _, nested := f.Type().Underlying().(*types.Struct); nested {
				return e.objLocs(vc.embPtr(t, idx, ref), f.Type())
			}
			c, _, _ := vc.fieldComp(t, idx)
			return []modLoc{{c, ref}}
		}
		if _, nested := f.Type().Underlying().(*types.Struct); nested {
			ref = vc.embPtr(t, idx, ref)
			t = f.Type()
			continue
		}
		// through a pointer field
		c, _, fty := vc.fieldComp(t, idx)
		ref = sel(vc.cur(e.st, c), ref)
		t = fty.Underlying().(*types.Pointer).Elem()
	}
	return nil
}

// objLocs: every component of the object of type t at ref.
func (e *Env) objLocs(ref string, t types.Type) []modLoc {
	vc := e.vc
	if stt, ok := t.Underlying().(*types.Struct); ok {
		var out []modLoc
		for i := 0; i < stt.NumFields(); i++ {
			ft := stt.Field(i).Type()
			if _, nested := ft.Underlying().(*types.Struct); nested {
				out = append(out, e.objLocs(vc.embPtr(t, i, ref), ft)...)
				continue
			}
			c, _, _ := vc.fieldComp(t, i)
			out = append(out, modLoc{c, ref})
		}
		return out
	}
	c, _ := vc.cellComp(t)
	return []modLoc{{c, ref}}
}

func (vc *FnVC) evalModifies(env *Env) {
	if vc.fc.ModifiesAll {
		vc.modAll = true
	}
	for _, cl := range vc.fc.Modifies {
		for _, l := range cl.Locs {
			vc.modset = append(vc.modset, env.evalLoc(l)...)
		}
	}
}

// callModifies: components a call may write (for loop havoc), type-level. all=true means
// "everything except the classes in keep".
func (vc *FnVC) callModifies(c *ssa.CallCommon) (comps []string, all bool, keep []string) {
	if b, ok := c.Value.(*ssa.Builtin); ok {
		switch b.Name() {
		case "append":
			if sl, ok := c.Args[0].Type().Underlying().(*types.Slice); ok {
				comp, _ := vc.elemComp(sl.Elem())
				return []string{comp, "alloc"}, false, nil
			}
		case "delete":
			mh, mv, _, _ := vc.mapComps(c.Args[0].Type().Underlying().(*types.Map))
			return []string{mh, mv, mlOf(mh)}, false, nil
		case "copy":
			if sl, ok := c.Args[0].Type().Underlying().(*types.Slice); ok {
				comp, _ := vc.elemComp(sl.Elem())
				return []string{comp}, false, nil
			}
		}
		return nil, false, nil
	}
	var fcs []*FuncContract
	unknown := false
	if c.IsInvoke() {
		cands, generic := vc.invokeCandidates(c)
		for _, cd := range cands {
			fcs = append(fcs, cd.fc)
		}
		if generic == nil {
			unknown = true
		} else {
			fcs = append(fcs, generic)
		}
	} else if fn := c.StaticCallee(); fn != nil {
		fc := vc.prog.contractOf(fn)
		if fc == nil {
			unknown = true
		} else {
			fcs = append(fcs, fc)
		}
	} else {
		fc := vc.funcValueContract(c.Value)
		if fc == nil {
			unknown = true
		} else {
			fcs = append(fcs, fc)
		}
	}
	set := map[string]bool{}
	var keepSet map[string]bool
	meet := func(ks map[string]bool) {
		if keepSet == nil {
			keepSet = ks
			return
		}
		for k := range keepSet {
			if !ks[k] {
				delete(keepSet, k)
			}
		}
	}
	if unknown {
		all = true
		meet(map[string]bool{"ghost": true})
	}
	for _, fc := range fcs {
		if fc.ModifiesAll {
			all = true
			ks := map[string]bool{"ghost": true}
			for _, cl := range fc.Preserves {
				for _, loc := range cl.Locs {
					if strings.HasPrefix(loc, "all(") && strings.HasSuffix(loc, ")") {
						ks["pkg:"+allPkg(loc)] = true
						continue
					}
					if _, isGhost := vc.prog.cs.Ghosts[loc]; isGhost {
						continue
					}
					if strings.HasPrefix(loc, "globals(") && strings.HasSuffix(loc, ")") {
						pfx := "G$" + sanitize(loc[len("globals("):len(loc)-1]) + "$"
						for c := range vc.compSort {
							if strings.HasPrefix(c, pfx) {
								ks["comp:"+c] = true
							}
						}
						continue
					}
					if env := vc.dummyEnvFor(fc); env != nil {
						for _, c := range env.compsOfLocSpec(loc) {
							ks["comp:"+c] = true
						}
					}
				}
			}
			meet(ks)
		}
		if !fc.Pure {
			set["alloc"] = true
		}
		for _, cl := range fc.Modifies {
			for _, l := range cl.Locs {
				for _, comp := range vc.locCompsTypeLevel(fc, l) {
					set[comp] = true
				}
			}
		}
		for _, cl := range fc.Records {
			set["Ghost$"+cl.Name] = true
		}
	}
	for k := range set {
		comps = append(comps, k)
	}
	sort.Strings(comps)
	for k := range keepSet {
		keep = append(keep, k)
	}
	sort.Strings(keep)
	return comps, all, keep
}

// locCompsTypeLevel: the components a modifies location may touch, without evaluating it
// (used for loop havoc). Conservative: resolves the location against dummy bindings.
func (vc *FnVC) locCompsTypeLevel(fc *FuncContract, loc string) []string {
	env := vc.dummyEnvFor(fc)
	if env == nil {
		return nil
	}
	saved := len(vc.stream)
	var out []string
	func() {
		defer func() {
			if r := recover(); r != nil {
				if _, ok := r.(unsupportedErr); ok {
					out = nil
					panic(r)
				}
				panic(r)
			}
		}()
		for _, m := range env.evalLoc(loc) {
			out = append(out, m.comp)
		}
	}()
	vc.stream = vc.stream[:saved]
	return out
}

// dummyEnvFor binds the contract's parameter names to fresh constants of the right types.
func (vc *FnVC) dummyEnvFor(fc *FuncContract) *Env {
	sig, names, pkg := vc.signatureOf(fc)
	if sig == nil {
		return nil
	}
	env := vc.newEnv(vc.entry, vc.entry)
	env.vars = map[string]Val{}
	env.pkg = pkg
	all := paramList(sig)
	for i, p := range all {
		n := p.Name()
		if i < len(names) && names[i] != "" {
			n = names[i]
		}
		if n == "" || n == "_" {
			continue
		}
		sortS := vc.enc.sortOf(p.Type())
		c := vc.enc.freshConst("dummy", sortS)
		env.vars[n] = Val{k: vTerm, tv: TV{S: c, Sort: sortS, Ty: p.Type()}}
	}
	if sig.Recv() != nil || fc.Kind == "iface" {
		if v, ok := env.vars[all0Name(all, names)]; ok {
			tv := v.tv
			env.self = &tv
		}
	}
	return env
}

func all0Name(all []*types.Var, names []string) string {
	if len(names) > 0 && names[0] != "" {
		return names[0]
	}
	if len(all) > 0 {
		return all[0].Name()
	}
	return ""
}

func paramList(sig *types.Signature) []*types.Var {
	var out []*types.Var
	if sig.Recv() != nil {
		out = append(out, sig.Recv())
	}
	for i := 0; i < sig.Params().Len(); i++ {
		out = append(out, sig.Params().At(i))
	}
	return out
}

// signatureOf finds the signature a contract talks about.
func (vc *FnVC) signatureOf(fc *FuncContract) (*types.Signature, []string, *types.Package) {
	p := vc.prog
	var pkg *types.Package
	if fc.Pkg != "" {
		if pk := p.byPath[fc.Pkg]; pk != nil {
			pkg = pk.Types
		}
	}
	switch fc.Kind {
	case "func", "trusted":
		id := fc.Pkg + "::" + fc.Key
		if fc.Kind == "trusted" {
			id = "::" + fc.Key
		}
		fn := p.fnByID[id]
		if fn == nil {
			return nil, nil, pkg
		}
		if pkg == nil && fn.Pkg != nil {
			pkg = fn.Pkg.Pkg
		}
		return fn.Signature, fc.ParamNames, pkg
	case "iface":
		// (pkg.Iface).Method
		it, m := vc.parseIfaceKey(fc)
		if it == nil {
			return nil, nil, pkg
		}
		obj, _, _ := types.LookupFieldOrMethod(it, false, nil, m)
		f, ok := obj.(*types.Func)
		if !ok {
			return nil, nil, pkg
		}
		sig := f.Type().(*types.Signature)
		// synthesize a receiver named "self"
		recv := types.NewVar(0, nil, "self", it)
		sig2 := types.NewSignatureType(recv, nil, nil, sig.Params(), sig.Results(), sig.Variadic())
		names := fc.ParamNames
		if len(names) == 0 {
			names = []string{"self"}
		}
		return sig2, names, pkg
	case "fnfield":
		t := vc.resolveFuncTypeKey(fc)
		if t == nil {
			return nil, nil, pkg
		}
		return t, fc.ParamNames, pkg
	}
	return nil, nil, pkg
}

func (vc *FnVC) parseIfaceKey(fc *FuncContract) (types.Type, string) {
	// "(http.ResponseWriter).WriteHeader" / "(responseWrapper).flushBodyContents"
	key := fc.Key
	k := strings.LastIndex(key, ").")
	if !strings.HasPrefix(key, "(") || k < 0 {
		return nil, ""
	}
	tname, m := key[1:k], key[k+2:]
	env := vc.newEnv(vc.entry, vc.entry)
	if fc.Pkg != "" {
		if pk := vc.prog.byPath[fc.Pkg]; pk != nil {
			env.pkg = pk.Types
		}
	}
	te, err := parseTypeString(tname)
	if err != nil {
		return nil, ""
	}
	t, _ := env.resolveType(te)
	return t, m
}

func (vc *FnVC) resolveFuncTypeKey(fc *FuncContract) *types.Signature {
	// Key: named func type "ErrFunc" or "Type.field"
	env := vc.newEnv(vc.entry, vc.entry)
	if fc.Pkg != "" {
		if pk := vc.prog.byPath[fc.Pkg]; pk != nil {
			env.pkg = pk.Types
		}
	}
	if k := strings.LastIndex(fc.Key, "."); k > 0 {
		te, err := parseTypeString(fc.Key[:k])
		if err == nil {
			var t types.Type
			func() {
				defer func() { recover() }()
				t, _ = env.resolveType(te)
			}()
			if t != nil {
				if stt, ok := t.Underlying().(*types.Struct); ok {
					for i := 0; i < stt.NumFields(); i++ {
						if stt.Field(i).Name() == fc.Key[k+1:] {
							if s, ok := stt.Field(i).Type().Underlying().(*types.Signature); ok {
								return s
							}
						}
					}
				}
			}
		}
	}
	te, err := parseTypeString(fc.Key)
	if err != nil {
		return nil
	}
	var t types.Type
	func() {
		defer func() { recover() }()
		t, _ = env.resolveType(te)
	}()
	if t == nil {
		return nil
	}
	s, _ := t.Underlying().(*types.Signature)
	return s
}

// funcValueContract finds the assumed contract for a call through a function value.
func (vc *FnVC) funcValueContract(v ssa.Value) *FuncContract {
	// named function type
	if n := namedOf(v.Type()); n != nil && n.Obj().Pkg() != nil {
		if fc := vc.prog.cs.Funcs[n.Obj().Pkg().Path()+"::"+n.Obj().Name()]; fc != nil && fc.Kind == "fnfield" {
			return fc
		}
	}
	// loaded from a struct field
	if ld, ok := v.(*ssa.UnOp); ok {
		if fa, ok := ld.X.(*ssa.FieldAddr); ok {
			st := fa.X.Type().Underlying().(*types.Pointer).Elem()
			if n := namedOf(st); n != nil && n.Obj().Pkg() != nil {
				f := st.Underlying().(*types.Struct).Field(fa.Field)
				if fc := vc.prog.cs.Funcs[n.Obj().Pkg().Path()+"::"+n.Obj().Name()+"."+f.Name()]; fc != nil && fc.Kind == "fnfield" {
					return fc
				}
				if fc := vc.prog.cs.Funcs["::"+n.Obj().Pkg().Name()+"."+n.Obj().Name()+"."+f.Name()]; fc != nil && fc.Kind == "fnfield" {
					return fc
				}
			}
		}
	}
	return nil
}

// ---- calls ----

func (vc *FnVC) doCall(ins ssa.Instruction, c *ssa.CallCommon, st *State) {
	var resultV ssa.Value
	if call, ok := ins.(*ssa.Call); ok {
		resultV = call
	}
	if b, ok := c.Value.(*ssa.Builtin); ok {
		vc.doBuiltin(resultV, b, c, st)
		return
	}
	var results []Val
	sig := c.Signature()
	if c.IsInvoke() {
		results = vc.doInvoke(c, st)
	} else if fn := c.StaticCallee(); fn != nil {
		var args []Val
		for _, a := range c.Args {
			args = append(args, vc.val(a))
		}
		fc := vc.prog.contractOf(fn)
		if fc == nil && inModule(fn) {
			fc = vc.defaultFrameContract(fn)
		}
		vc.atCallObligations(fn, args, st)
		vc.pendingVars = nil
		if mc, ok := c.Value.(*ssa.MakeClosure); ok && fc != nil {
			// a function literal called directly: its captured variables are the cells bound here
			vc.pendingVars = map[string]Val{}
			for i, b := range mc.Bindings {
				if i < len(fn.FreeVars) {
					vc.pendingVars["&"+fn.FreeVars[i].Name()] = vc.val(b)
				}
			}
		}
		if fn.String() == "errors.As" && len(c.Args) == 2 {
			results = vc.doErrorsAs(c, st)
		} else if fc == nil {
			results = vc.unknownCall(describeCallee(c), sig, st)
		} else {
			results = vc.applyContract(fc, fn.Signature, args, st, calleeLabel(fn))
		}
	} else {
		var args []Val
		for _, a := range c.Args {
			args = append(args, vc.val(a))
		}
		fc := vc.funcValueContract(c.Value)
		fv := vc.term(c.Value)
		vc.safety("nil-func("+describeValue(c.Value)+")", not(eq(fv.S, "0")))
		vc.pendingVars = nil
		if fc != nil {
			// a contract on a function-typed field may speak about the struct that holds it
			if ld, ok := c.Value.(*ssa.UnOp); ok {
				if fa, ok := ld.X.(*ssa.FieldAddr); ok {
					vc.pendingVars = map[string]Val{"holder": vc.val(fa.X)}
				}
			}
		}
		// a function literal of this very function, called directly or through the field it was
		// stored in by the preceding statement: the literal's own (verified) contract applies,
		// its captured variables bound to the cells captured at the literal
		if mc := staticMakeClosure(c.Value, ins); mc != nil {
			cf := mc.Fn.(*ssa.Function)
			cfc := vc.prog.contractOf(cf)
			if cfc != nil && (fc == nil || len(cfc.Requires)+len(cfc.Ensures) > 0) {
				fc = cfc
				vc.pendingVars = map[string]Val{}
				for i, b := range mc.Bindings {
					if i < len(cf.FreeVars) {
						vc.pendingVars["&"+cf.FreeVars[i].Name()] = vc.val(b)
					}
				}
			} else if cfc == nil && fc == nil {
				fc = vc.defaultFrameContract(cf)
			}
		} else if fc == nil {
			if cf := staticClosure(c.Value); cf != nil {
				if cfc := vc.prog.contractOf(cf); cfc != nil && len(cfc.Requires) == 0 && len(cfc.Ensures) == 0 {
					fc = cfc
				} else if cfc == nil {
					fc = vc.defaultFrameContract(cf)
				}
			}
		}
		if fc == nil {
			results = vc.unknownCall("dynamic call of "+describeValue(c.Value), sig, st)
		} else {
			s := sig
			results = vc.applyContract(fc, s, args, st, fc.Key)
		}
	}
	if resultV != nil {
		switch len(results) {
		case 0:
			vc.vals[resultV] = Val{k: vNone}
		case 1:
			vc.vals[resultV] = results[0]
		default:
			vc.vals[resultV] = Val{k: vTuple, tup: results}
		}
	}
}

func calleeLabel(fn *ssa.Function) string {
	s := fn.String()
	s = strings.ReplaceAll(s, modulePath+"/", "")
	return s
}

func describeCallee(c *ssa.CallCommon) string {
	if c.IsInvoke() {
		return "(" + types.TypeString(c.Value.Type(), nil) + ")." + c.Method.Name()
	}
	if fn := c.StaticCallee(); fn != nil {
		return calleeLabel(fn)
	}
	return "dynamic call"
}

// unknownCall: a callee without contract: everything may change (DESIGN.md 2.5 case 3).
func (vc *FnVC) unknownCall(what string, sig *types.Signature, st *State) []Val {
	vc.unmodelled[what] = true
	vc.enc.usedAssumptions["calls without a contract preserve ghost state (they model entities such callees cannot reach; A3)"] = true
	vc.havocAll(st, "ghost")
	return vc.freshResults(sig, st, "r")
}

func (vc *FnVC) freshResults(sig *types.Signature, st *State, hint string) []Val {
	var out []Val
	for i := 0; i < sig.Results().Len(); i++ {
		t := sig.Results().At(i).Type()
		sortS := vc.enc.sortOf(t)
		n := vc.enc.freshConst(fmt.Sprintf("%s%d", hint, i), sortS)
		vc.assume(vc.typeInv(st, n, t))
		out = append(out, Val{k: vTerm, tv: TV{S: n, Sort: sortS, Ty: t}})
	}
	return out
}

// applyContract: assert requires, havoc modifies, assume ensures.
func (vc *FnVC) applyContract(fc *FuncContract, sig *types.Signature, args []Val, st *State, label string) []Val {
	vc.callCtr++
	callN := vc.callCtr
	if fc.Kind == "trusted" || fc.Kind == "iface" || fc.Kind == "fnfield" {
		vc.enc.usedTrusted[fc.Kind+" "+fc.Key] = true
	}
	env := vc.newEnv(st, st)
	env.vars = map[string]Val{}
	if fc.Pkg != "" {
		if pk := vc.prog.byPath[fc.Pkg]; pk != nil {
			env.pkg = pk.Types
		}
	} else if fn := vc.prog.fnByID["::"+fc.Key]; fn != nil && fn.Pkg != nil {
		env.pkg = fn.Pkg.Pkg
	}
	all := paramList(sig)
	if len(all) != len(args) {
		// signature without receiver but args include it (invoke / func value): pad
		if len(args) == len(all)+1 {
			all = append([]*types.Var{types.NewVar(0, nil, "self", nil)}, all...)
		} else {
			panic(unsupported(fmt.Sprintf("arity mismatch calling %s: %d params, %d args", label, len(all), len(args))))
		}
	}
	for i, p := range all {
		n := p.Name()
		if i < len(fc.ParamNames) && fc.ParamNames[i] != "" {
			n = fc.ParamNames[i]
		}
		if n == "" || n == "_" {
			continue
		}
		env.vars[n] = args[i]
	}
	for k, v := range vc.pendingVars {
		env.vars[k] = v
	}
	vc.pendingVars = nil
	if len(args) > 0 && (sig.Recv() != nil || fc.Kind == "iface") {
		tv := env.valTV(args[0])
		env.self = &tv
	}
	// requires
	for i, cl := range fc.Requires {
		if !vc.clauseApplies(cl) {
			// a pre-condition scoped to another property: its matching post-conditions are not
			// used for this property either
			continue
		}
		t := vc.trBool(cl.E, env)
		vc.oblige("call-pre", fmt.Sprintf("%s/%d", label, i), t, vc.callPreTags(), cl.Src)
	}
	for _, cl := range fc.PanicsIf {
		t := vc.trBool(cl.E, env)
		vc.oblige("call-pre", label+"/no-panic", not(t), vc.callPreTags(), "callee panics if "+cl.Src)
	}
	pre := st.clone()
	// havoc
	if fc.ModifiesAll && fc.Kind == "func" && len(fc.Preserves) > 0 {
		if vc.prog.framesUsed == nil {
			vc.prog.framesUsed = map[string]*FuncContract{}
		}
		vc.prog.framesUsed[fc.Pkg+"::"+fc.Key] = fc
	}
	if fc.ModifiesAll {
		keep := []string{"ghost"}
		for _, cl := range fc.Preserves {
			for _, loc := range cl.Locs {
				if strings.HasPrefix(loc, "all(") && strings.HasSuffix(loc, ")") {
					keep = append(keep, "pkg:"+allPkg(loc))
				}
			}
		}
		vc.havocAll(st, keep...)
		// locations the callee is proved (call-graph scan) to leave alone
		for _, cl := range fc.Preserves {
			for _, loc := range cl.Locs {
				if _, isGhost := vc.prog.cs.Ghosts[loc]; isGhost {
					continue
				}
				if strings.HasPrefix(loc, "globals(") && strings.HasSuffix(loc, ")") {
					// the package-level variables of that package keep their values
					pfx := "G$" + sanitize(loc[len("globals("):len(loc)-1]) + "$"
					for _, c := range sortedKeys(vc.compSort) {
						if strings.HasPrefix(c, pfx) {
							st.comp[c] = vc.cur(pre, c)
						}
					}
					continue
				}
				if strings.HasPrefix(loc, "all(") {
					continue
				}
				for _, c := range env.compsOfLocSpec(loc) {
					st.comp[c] = vc.cur(pre, c)
				}
			}
		}
	}
	{
		if !fc.Pure && !fc.ModifiesAll {
			a := vc.alloc(st)
			n := vc.havocComp(st, "alloc")
			vc.assume("(>= " + n + " " + a + ")")
		}
		preEnv := *env
		preEnv.st = pre
		for _, cl := range fc.Modifies {
			for _, l := range cl.Locs {
				for _, m := range preEnv.evalLoc(l) {
					if m.ref == "" {
						vc.havocComp(st, m.comp)
						continue
					}
					_, vs := arrayParts(vc.compSort[m.comp])
					fv := vc.enc.freshConst("hv", vs)
					// the caller itself must be allowed to modify this location
					fr := vc.frameCheckCall(pre, m, label)
					vc.setCompF(st, m.comp, sto(vc.cur(st, m.comp), m.ref, fv), fr)
				}
			}
		}
	}
	results := vc.freshResults(sig, st, fmt.Sprintf("c%d$r", callN))
	if fc.Fresh && len(results) > 0 {
		r := results[0].tv
		s := r.S
		if r.Sort == sIface {
			s = "(if-data " + r.S + ")"
		} else if r.Sort == sSlice {
			s = "(sl-arr " + r.S + ")"
		}
		vc.assume("(> " + s + " " + vc.alloc(pre) + ")")
	}
	post := *env
	post.st = st
	post.old = pre
	post.results = results
	for i := 0; i < sig.Results().Len(); i++ {
		if n := sig.Results().At(i).Name(); n != "" && n != "_" {
			if _, clash := post.vars[n]; !clash {
				post.vars[n] = results[i]
			}
		}
	}
	scope := "true"
	if len(fc.Assuming) > 0 {
		preEnv2 := *env
		preEnv2.st = pre
		preEnv2.old = pre
		var cs []string
		for _, cl := range fc.Assuming {
			if !vc.clauseApplies(cl) {
				continue
			}
			cs = append(cs, vc.trBool(cl.E, &preEnv2))
		}
		scope = and(cs...)
	}
	for _, cl := range fc.Ensures {
		if !vc.clauseApplies(cl) {
			continue
		}
		vc.assume(implies(scope, vc.trBool(cl.E, &post)))
	}
	for _, cl := range fc.Defines {
		if fc.View != "" {
			vc.enc.usedAssumptions["ASSUMED, not proved (property view "+fc.View+" of "+fc.Key+"'s contract): "+cl.Src] = true
		} else {
			vc.enc.usedAssumptions["abstract verdict defined by "+fc.Key+": "+cl.Src+" (the verdict is a function of the named arguments within one call of the caller)"] = true
		}
		vc.assume(vc.trBool(cl.E, &post))
	}
	// ghost assignments performed by the callee at return
	for _, cl := range fc.Records {
		g, ok := vc.prog.cs.Ghosts[cl.Name]
		if !ok {
			panic(unsupported("records: unknown ghost variable " + cl.Name))
		}
		comp, gsort, _ := post.ghostComp(g)
		v := post.tr(cl.E)
		if v.Sort != gsort {
			panic(unsupported("records: sort mismatch for " + cl.Name))
		}
		vc.frameCheckCall(pre, modLoc{comp: comp}, label)
		vc.setComp(st, comp, v.S)
	}
	return results
}

// frameCheckCall: a callee's write must be within the caller's own frame.
func (vc *FnVC) frameCheckCall(pre *State, m modLoc, label string) (fresh bool) {
	if vc.fc == nil {
		return false
	}
	if isGhostComp(m.comp) {
		// ghost state may change only when the caller's own contract names it
		for _, mm := range vc.modset {
			if mm.comp == m.comp {
				if mm.ref == "" {
					return false
				}
			}
		}
		for _, cl := range vc.fc.Records {
			if "Ghost$"+cl.Name == m.comp {
				return false
			}
		}
		var alts []string
		for _, mm := range vc.modset {
			if mm.comp == m.comp && m.ref != "" {
				alts = append(alts, eq(m.ref, mm.ref))
			}
		}
		vc.oblige("frame", m.comp+"@"+label, or(alts...), vc.fnTags(), "callee modifies ghost state the caller's contract does not name")
		return false
	}
	if vc.modAll {
		return false
	}
	return vc.frameCheck(pre, m.comp, m.ref)
}

// ---- interface method calls ----

type invokeCand struct {
	fn  *ssa.Function
	fc  *FuncContract
	typ types.Type
}

func (vc *FnVC) invokeCandidates(c *ssa.CallCommon) ([]invokeCand, *FuncContract) {
	it := c.Value.Type()
	iface := it.Underlying().(*types.Interface)
	m := c.Method.Name()
	var cands []invokeCand
	for id, fn := range vc.prog.fnByID {
		fc := vc.prog.cs.Funcs[id]
		if fc == nil || fc.Kind != "func" || fn.Signature.Recv() == nil || fn.Name() != m {
			continue
		}
		rt := fn.Signature.Recv().Type()
		if !types.Implements(rt, iface) {
			continue
		}
		cands = append(cands, invokeCand{fn, fc, rt})
	}
	sort.Slice(cands, func(i, j int) bool { return cands[i].fc.Key < cands[j].fc.Key })
	// generic contract: keyed by the (named) interface type
	var generic *FuncContract
	if n := namedOf(it); n != nil {
		pk := ""
		if n.Obj().Pkg() != nil {
			pk = n.Obj().Pkg().Path()
		}
		pname := ""
		if n.Obj().Pkg() != nil {
			pname = n.Obj().Pkg().Name()
		}
		for _, key := range []string{pk + "::(" + n.Obj().Name() + ")." + m, "::(" + pk + "." + n.Obj().Name() + ")." + m, "::(" + pname + "." + n.Obj().Name() + ")." + m} {
			if fc := vc.prog.cs.Funcs[key]; fc != nil && fc.Kind == "iface" {
				generic = fc
			}
		}
		if generic == nil {
			// declared by a module package that uses the interface
			suffix := "::(" + pname + "." + n.Obj().Name() + ")." + m
			for _, id := range sortedKeys(vc.prog.cs.Funcs) {
				if fc := vc.prog.cs.Funcs[id]; fc.Kind == "iface" && strings.HasSuffix(id, suffix) {
					generic = fc
					break
				}
			}
		}
		if generic == nil && n.Obj().Pkg() == nil {
			// universe: error
			if fc := vc.prog.cs.Funcs["::("+n.Obj().Name()+")."+m]; fc != nil {
				generic = fc
			}
		}
		// embedded interfaces: (http.ResponseWriter).Write reached through responseWrapper
		if generic == nil {
			generic = vc.embeddedIfaceContract(iface, m)
		}
	}
	return cands, generic
}

func (vc *FnVC) embeddedIfaceContract(iface *types.Interface, m string) *FuncContract {
	for i := 0; i < iface.NumEmbeddeds(); i++ {
		et := iface.EmbeddedType(i)
		n := namedOf(et)
		if n == nil {
			continue
		}
		ei, ok := et.Underlying().(*types.Interface)
		if !ok {
			continue
		}
		obj, _, _ := types.LookupFieldOrMethod(et, false, nil, m)
		if obj == nil {
			continue
		}
		pk := ""
		if n.Obj().Pkg() != nil {
			pk = n.Obj().Pkg().Path()
		}
		pname := ""
		if n.Obj().Pkg() != nil {
			pname = n.Obj().Pkg().Name()
		}
		for _, key := range []string{pk + "::(" + n.Obj().Name() + ")." + m, "::(" + pk + "." + n.Obj().Name() + ")." + m, "::(" + pname + "." + n.Obj().Name() + ")." + m} {
			if fc := vc.prog.cs.Funcs[key]; fc != nil && fc.Kind == "iface" {
				return fc
			}
		}
		if fc := vc.embeddedIfaceContract(ei, m); fc != nil {
			return fc
		}
	}
	return nil
}

func (vc *FnVC) doInvoke(c *ssa.CallCommon, st *State) []Val {
	recv := vc.term(c.Value)
	vc.safety("nil-iface("+describeValue(c.Value)+")", not(eq("(if-tag "+recv.S+")", "0")))
	cands, generic := vc.invokeCandidates(c)
	var args []Val
	for _, a := range c.Args {
		args = append(args, vc.val(a))
	}
	sig := c.Signature()
	label := "(" + typeShort(c.Value.Type()) + ")." + c.Method.Name()
	type caseT struct {
		guard string
		run   func(st *State) []Val
	}
	var cases []caseT
	var notAny []string
	for _, cd := range cands {
		cd := cd
		tag := vc.enc.typeTag(cd.typ)
		g := eq("(if-tag "+recv.S+")", fmt.Sprint(tag))
		notAny = append(notAny, not(g))
		cases = append(cases, caseT{g, func(s *State) []Val {
			rv := Val{k: vTerm, tv: TV{S: vc.enc.unbox("(if-data "+recv.S+")", cd.typ), Sort: vc.enc.sortOf(cd.typ), Ty: cd.typ}}
			return vc.applyContract(cd.fc, cd.fn.Signature, append([]Val{rv}, args...), s, calleeLabel(cd.fn))
		}})
	}
	rest := and(notAny...)
	cases = append(cases, caseT{rest, func(s *State) []Val {
		if generic == nil {
			return vc.unknownCall(label, sig, s)
		}
		rv := Val{k: vTerm, tv: recv}
		return vc.applyContract(generic, sig, append([]Val{rv}, args...), s, label)
	}})
	if len(cases) == 1 {
		return cases[0].run(st)
	}
	// case split on the dynamic type
	b := vc.curBlock
	savedReach := vc.reach[b]
	pre := st.clone()
	var outs []*State
	var ress [][]Val
	var guards []string
	for i, cs := range cases {
		gname := vc.enc.freshConst(fmt.Sprintf("case%d", i), sBool)
		vc.emit(eq(gname, and(savedReach, cs.guard)))
		vc.reach[b] = gname
		s := pre.clone()
		r := cs.run(s)
		outs = append(outs, s)
		ress = append(ress, r)
		guards = append(guards, gname)
	}
	vc.reach[b] = savedReach
	// merge
	merged := vc.mergeCaseStates(pre, outs, guards)
	*st = *merged
	var results []Val
	for i := 0; i < sig.Results().Len(); i++ {
		t := sig.Results().At(i).Type()
		sortS := vc.enc.sortOf(t)
		n := vc.enc.freshConst("inv$r", sortS)
		for k := range cases {
			vc.emit(implies(guards[k], eq(n, ress[k][i].tv.S)))
		}
		results = append(results, Val{k: vTerm, tv: TV{S: n, Sort: sortS, Ty: t}})
	}
	return results
}

func (vc *FnVC) mergeCaseStates(pre *State, outs []*State, guards []string) *State {
	sameEpoch := true
	for _, o := range outs[1:] {
		if !o.sameEpochs(outs[0]) {
			sameEpoch = false
		}
	}
	st := &State{ep: map[string]int{}, comp: map[string]string{}, base: map[string]string{}}
	for k, v := range outs[0].ep {
		st.ep[k] = v
	}
	if !sameEpoch {
		for _, o := range outs {
			vc.materialize(o)
		}
		vc.epochCtr++
		classes := map[string]bool{}
		for _, o := range outs {
			for k := range o.ep {
				classes[k] = true
			}
		}
		for c := range classes {
			for _, o := range outs[1:] {
				if o.ep[c] != outs[0].ep[c] {
					st.ep[c] = vc.epochCtr
				}
			}
		}
	}
	keys := map[string]bool{}
	for _, o := range outs {
		for k := range o.comp {
			keys[k] = true
		}
	}
	var ks []string
	for k := range keys {
		ks = append(ks, k)
	}
	sort.Strings(ks)
	for _, k := range ks {
		v0 := vc.cur(outs[0], k)
		same := true
		for _, o := range outs[1:] {
			if vc.cur(o, k) != v0 {
				same = false
			}
		}
		if same {
			st.comp[k] = v0
			continue
		}
		n := vc.enc.freshConst(k, vc.compSort[k])
		for i, o := range outs {
			vc.emit(implies(guards[i], eq(n, vc.cur(o, k))))
		}
		st.comp[k] = n
	}
	for _, k := range ks {
		b0 := vc.curBase(outs[0], k)
		same := true
		for _, o := range outs[1:] {
			if vc.curBase(o, k) != b0 {
				same = false
			}
		}
		if same {
			st.base[k] = b0
		} else if v, ok := st.comp[k]; ok {
			st.base[k] = v
		}
	}
	return st
}

// ---- builtins ----

func (vc *FnVC) doBuiltin(res ssa.Value, b *ssa.Builtin, c *ssa.CallCommon, st *State) {
	switch b.Name() {
	case "len":
		v := vc.term(c.Args[0])
		switch u := c.Args[0].Type().Underlying().(type) {
		case *types.Basic:
			vc.define(res, "(str.len "+v.S+")")
		case *types.Slice:
			vc.setTerm(res, "(sl-len "+v.S+")")
		case *types.Map:
			mhl, _, _, _ := vc.mapComps(u)
			vc.define(res, ite(eq(v.S, "0"), "0", sel(vc.cur(st, mlOf(mhl)), v.S)))
			vc.assume("(>= " + vc.vals[res].tv.S + " 0)")
		case *types.Pointer:
			vc.setTerm(res, fmt.Sprint(u.Elem().Underlying().(*types.Array).Len()))
		default:
			panic(unsupported("len of " + c.Args[0].Type().String()))
		}
	case "cap":
		v := vc.term(c.Args[0])
		if _, ok := c.Args[0].Type().Underlying().(*types.Slice); ok {
			vc.setTerm(res, "(sl-cap "+v.S+")")
			return
		}
		panic(unsupported("cap of " + c.Args[0].Type().String()))
	case "append":
		vc.doAppend(res, c, st)
	case "delete":
		vc.lockObligation(c.Args[0], true, st)
		m := vc.term(c.Args[0]).S
		k := vc.term(c.Args[1]).S
		mt := c.Args[0].Type().Underlying().(*types.Map)
		mh, _, _, _ := vc.mapComps(mt)
		// deleting from a nil map is a no-op
		has := vc.mapHas(st, mt, m, k)
		vc.frameCheckGuarded(st, mh, m, not(eq(m, "0")))
		ml := vc.cur(st, mlOf(mh))
		vc.setComp(st, mlOf(mh), ite(eq(m, "0"), ml, sto(ml, m, ite(has, "(- "+sel(ml, m)+" 1)", sel(ml, m)))))
		cur := vc.cur(st, mh)
		vc.setComp(st, mh, ite(eq(m, "0"), cur, sto(cur, m, sto(sel(cur, m), k, "false"))))
		// cardinality (Go semantics, not derivable from the counter alone): a map that still
		// has a key after the deletion is not empty
		ks := vc.enc.sortOf(mt.Key())
		vc.assume("(forall ((q$k " + ks + ")) (! (=> (select (select " + vc.cur(st, mh) + " " + m + ") q$k) (> (select " + vc.cur(st, mlOf(mh)) + " " + m + ") 0)) :pattern ((select (select " + vc.cur(st, mh) + " " + m + ") q$k))))")
	case "copy":
		panic(unsupported("builtin copy"))
	case "print", "println":
		return
	case "min", "max":
		a, bb := vc.term(c.Args[0]), vc.term(c.Args[1])
		if a.Sort != sInt || len(c.Args) != 2 {
			panic(unsupported("min/max on " + a.Sort))
		}
		op := "<="
		if b.Name() == "max" {
			op = ">="
		}
		vc.define(res, ite("("+op+" "+a.S+" "+bb.S+")", a.S, bb.S))
	case "ssa:wrapnilchk":
		v := vc.term(c.Args[0])
		vc.safety("nil(wrapnilchk)", not(eq(v.S, "0")))
		vc.setTerm(res, v.S)
	case "recover":
		panic(unsupported("recover"))
	default:
		panic(unsupported("builtin " + b.Name()))
	}
}

func (vc *FnVC) frameCheckGuarded(st *State, comp, ref, guard string) {
	if vc.fc == nil || vc.modAll || vc.freshRef[ref] {
		return
	}
	alts := []string{not(guard), "(> " + ref + " " + vc.cur(vc.entry, "alloc") + ")"}
	for _, m := range vc.modset {
		if m.comp != comp {
			continue
		}
		if m.ref == "" {
			return
		}
		alts = append(alts, eq(ref, m.ref))
	}
	vc.oblige("frame", comp, or(alts...), vc.fnTags(), "write outside the modifies clause")
}

// doAppend models append as producing a fresh backing array (assumption: no observer
// holds a longer alias of the old backing array; listed in the evidence).
func (vc *FnVC) doAppend(res ssa.Value, c *ssa.CallCommon, st *State) {
	s := vc.term(c.Args[0]).S
	sl, ok := c.Args[0].Type().Underlying().(*types.Slice)
	if !ok {
		panic(unsupported("append to " + c.Args[0].Type().String()))
	}
	comp, es := vc.elemComp(sl.Elem())
	vc.enc.usedAssumptions["append copies: the result never shares its backing array with the argument"] = true
	oldArr := sel(vc.cur(st, comp), "(sl-arr "+s+")")
	base := "(sl-len " + s + ")"
	var newContent, n string
	// pattern: append(s, <k fixed elements>)
	if k, arrRef, ok := vc.fixedVarargs(c.Args[1]); ok {
		content := oldArr
		for i := 0; i < k; i++ {
			ev := sel(sel(vc.cur(st, comp), arrRef), fmt.Sprint(i))
			idx := base
			if i > 0 {
				idx = "(+ " + base + " " + fmt.Sprint(i) + ")"
			}
			content = sto(content, idx, ev)
		}
		newContent = content
		n = fmt.Sprint(k)
		if vc.useKeys {
			set := vc.keysOf(es, oldArr, base)
			for i := 0; i < k; i++ {
				ev := sel(sel(vc.cur(st, comp), arrRef), fmt.Sprint(i))
				set = sto(set, ev, "true")
			}
			vc.assume(eq(vc.keysOf(es, newContent, "(+ "+base+" "+fmt.Sprint(k)+")"), set))
		}
	} else if bt, isStr := c.Args[1].Type().Underlying().(*types.Basic); isStr && bt.Info()&types.IsString != 0 {
		// append([]byte, string...)
		t := vc.term(c.Args[1]).S
		n = "(str.len " + t + ")"
		nc := vc.enc.freshConst("appc", arraySort(sInt, es))
		q := vc.enc.freshName("qi")
		vc.assume("(forall ((" + q + " Int)) (=> (and (<= 0 " + q + ") (< " + q + " (sl-len " + s + "))) (= (select " + nc + " " + q + ") (select " + oldArr + " " + q + "))))")
		vc.assume("(forall ((" + q + " Int)) (=> (and (<= 0 " + q + ") (< " + q + " " + n + ")) (= (select " + nc + " (+ " + base + " " + q + ")) (str.to_code (str.at " + t + " " + q + ")))))")
		newContent = nc
	} else {
		t := vc.term(c.Args[1]).S
		n = "(sl-len " + t + ")"
		nc := vc.enc.freshConst("appc", arraySort(sInt, es))
		tArr := sel(vc.cur(st, comp), "(sl-arr "+t+")")
		q := vc.enc.freshName("qi")
		vc.assume("(forall ((" + q + " Int)) (=> (and (<= 0 " + q + ") (< " + q + " (sl-len " + s + "))) (= (select " + nc + " " + q + ") (select " + oldArr + " " + q + "))))")
		vc.assume("(forall ((" + q + " Int)) (=> (and (<= 0 " + q + ") (< " + q + " " + n + ")) (= (select " + nc + " (+ " + base + " " + q + ")) (select " + tArr + " " + q + "))))")
		// the same fact indexed by the position in the result (an index term e-matching can bind)
		vc.assume("(forall ((" + q + " Int)) (! (=> (and (<= " + base + " " + q + ") (< " + q + " (+ " + base + " " + n + "))) (= (select " + nc + " " + q + ") (select " + tArr + " (- " + q + " " + base + ")))) :pattern ((select " + nc + " " + q + "))))")
		newContent = nc
	}
	r := vc.newRef(st, "arr")
	vc.setCompFresh(st, comp, sto(vc.cur(st, comp), r, newContent))
	capN := vc.enc.freshConst("cap", sInt)
	newLen := "(+ (sl-len " + s + ") " + n + ")"
	vc.assume("(>= " + capN + " " + newLen + ")")
	vc.define(res, "(mk-slice "+r+" "+newLen+" "+capN+")")
}

// fixedVarargs recognises the SSA shape of f(xs...) packing: slice t of new [k]T.
func (vc *FnVC) fixedVarargs(v ssa.Value) (k int, arrRef string, ok bool) {
	sl, isSlice := v.(*ssa.Slice)
	if !isSlice || sl.Low != nil || sl.High != nil {
		return 0, "", false
	}
	al, isAlloc := sl.X.(*ssa.Alloc)
	if !isAlloc {
		return 0, "", false
	}
	at, isArr := al.Type().(*types.Pointer).Elem().Underlying().(*types.Array)
	if !isArr || at.Len() > 16 {
		return 0, "", false
	}
	return int(at.Len()), vc.term(al).S, true
}

// ---- defers ----

func (vc *FnVC) runDefers(st *State) {
	b := vc.curBlock
	for i := len(vc.deferred) - 1; i >= 0; i-- {
		d := vc.deferred[i]
		for _, li := range vc.loops {
			if li.body[d.Block()] {
				panic(unsupported("defer inside a loop"))
			}
		}
		guard := vc.reach[d.Block()]
		if guard == "" {
			continue
		}
		saved := vc.reach[b]
		gname := vc.enc.freshConst("defer", sBool)
		vc.emit(eq(gname, and(saved, guard)))
		ngname := vc.enc.freshConst("nodefer", sBool)
		vc.emit(eq(ngname, and(saved, not(guard))))
		pre := st.clone()
		vc.reach[b] = gname
		s1 := pre.clone()
		savedInstr := vc.curInstr
		vc.doCall(d, d.Common(), s1)
		vc.curInstr = savedInstr
		vc.reach[b] = saved
		merged := vc.mergeCaseStates(pre, []*State{s1, pre}, []string{gname, ngname})
		*st = *merged
	}
}

// allPkg: "all(openapi3\\SchemaError)" -> "openapi3"
func allPkg(loc string) string {
	inner := loc[4 : len(loc)-1]
	if k := strings.Index(inner, "\\"); k >= 0 {
		inner = inner[:k]
	}
	return strings.TrimSpace(inner)
}

// allExcept: the struct type names excluded from an all(pkg\\T1\\T2) location.
func allExcept(loc string) []string {
	inner := loc[4 : len(loc)-1]
	parts := strings.Split(inner, "\\")
	var out []string
	for _, p := range parts[1:] {
		out = append(out, strings.TrimSpace(p))
	}
	return out
}

// doErrorsAs models errors.As(err, &target) for a target that is a local pointer variable:
// when it reports true it has stored a non-nil value of the target's type (package errors:
// "As ... sets target to that error value and returns true"); nothing else changes.
func (vc *FnVC) doErrorsAs(c *ssa.CallCommon, st *State) []Val {
	vc.enc.usedTrusted["trusted errors.As (built-in model)"] = true
	okN := vc.enc.freshConst("as$ok", sBool)
	res := []Val{{k: vTerm, tv: TV{S: okN, Sort: sBool, Ty: types.Typ[types.Bool]}}}
	mi, isMI := c.Args[1].(*ssa.MakeInterface)
	if !isMI {
		vc.havocAll(st, "ghost")
		return res
	}
	cell, isAlloc := mi.X.(*ssa.Alloc)
	if !isAlloc {
		vc.havocAll(st, "ghost")
		return res
	}
	et := cell.Type().(*types.Pointer).Elem()
	comp, sortS := vc.cellComp(et)
	ref := vc.term(cell).S
	nv := vc.enc.freshConst("as$val", sortS)
	vc.assume(vc.typeInv(st, nv, et))
	if sortS == sInt {
		vc.assume(implies(okN, not(eq(nv, "0"))))
	}
	cur := vc.cur(st, comp)
	vc.setCompFresh(st, comp, ite(okN, sto(cur, ref, nv), cur))
	return res
}

// defaultFrameContract: for the property being checked, a module callee without a contract
// gets `modifies *` plus the property's default `preserves` list; the preserves are not
// assumed: each such callee gets its own scan obligations in this run (DESIGN.md 4/C10).
func (vc *FnVC) defaultFrameContract(fn *ssa.Function) *FuncContract {
	locs := append([]string{}, vc.prog.cs.DefaultFrames[vc.prop]...)
	for _, inc := range vc.prog.cs.PropertyScope[vc.prop] {
		// a property checked within the scopes of others also uses their default frames
		locs = append(locs, vc.prog.cs.DefaultFrames[inc]...)
	}
	if len(locs) == 0 {
		return nil
	}
	id := vc.prog.idOfFn[fn]
	if id == "" {
		id = vc.prog.contractID(fn)
	}
	if id == "" {
		return nil
	}
	if fc, ok := vc.prog.synth[id]; ok {
		vc.prog.synthUsed[fn] = fc
		return fc
	}
	k := strings.Index(id, "::")
	fc := &FuncContract{Key: id[k+2:], Pkg: id[:k], Kind: "func", ModifiesAll: true, Loops: map[int]*LoopSpec{}, Options: map[string]string{"synthesized": "default-frame"}}
	fc.Preserves = []*Clause{{Kind: "preserves", Tags: []string{vc.prop}, Locs: locs, Src: strings.Join(locs, ", ")}}
	if vc.prog.synth == nil {
		vc.prog.synth = map[string]*FuncContract{}
		vc.prog.synthUsed = map[*ssa.Function]*FuncContract{}
	}
	vc.prog.synth[id] = fc
	vc.prog.synthUsed[fn] = fc
	return fc
}

// staticMakeClosure: the closure-creating instruction a called value denotes when that is
// syntactically evident: the literal itself, or a load from a struct field that the same basic block
// stored the literal into with nothing in between that could write the field (no call, no other
// store through a pointer).
func staticMakeClosure(v ssa.Value, at ssa.Instruction) *ssa.MakeClosure {
	if mc, ok := v.(*ssa.MakeClosure); ok {
		return mc
	}
	ld, ok := v.(*ssa.UnOp)
	if !ok || ld.Op != token.MUL {
		return nil
	}
	fa, ok := ld.X.(*ssa.FieldAddr)
	if !ok || ld.Block() == nil {
		return nil
	}
	instrs := ld.Block().Instrs
	pos := -1
	for i, in := range instrs {
		if in == ssa.Instruction(ld) {
			pos = i
		}
	}
	for i := pos - 1; i >= 0; i-- {
		switch x := instrs[i].(type) {
		case *ssa.Store:
			if fa2, ok := x.Addr.(*ssa.FieldAddr); ok && sameBase(fa2.X, fa.X, 3) && fa2.Field == fa.Field {
				mc, _ := x.Val.(*ssa.MakeClosure)
				return mc
			}
			if _, isAlloc := x.Addr.(*ssa.Alloc); isAlloc {
				continue
			}
			if fa2, ok := x.Addr.(*ssa.FieldAddr); ok && fa2.Field != fa.Field {
				// a different field (of whatever struct): cannot overwrite this one unless the
				// struct types differ in layout, which Go's typing rules out for the same field index
				// only when the types agree; be conservative
				if types.Identical(fa2.X.Type(), fa.X.Type()) {
					continue
				}
			}
			return nil
		case *ssa.Call, *ssa.Defer, *ssa.Go, *ssa.MapUpdate, *ssa.Send:
			return nil
		}
	}
	return nil
}

// staticClosure: the function literal a called value denotes, when that is syntactically known
// (the literal itself, or a single-assignment local variable holding it).
func staticClosure(v ssa.Value) *ssa.Function {
	for i := 0; i < 4; i++ {
		switch x := v.(type) {
		case *ssa.MakeClosure:
			return x.Fn.(*ssa.Function)
		case *ssa.Function:
			return x
		case *ssa.UnOp:
			al, ok := x.X.(*ssa.Alloc)
			if !ok {
				return nil
			}
			sv, ok := constCell(al)
			if !ok {
				return nil
			}
			v = sv
		default:
			return nil
		}
	}
	return nil
}

// callPreTags: a violated callee pre-condition (or panic condition) is both a functional and a
// safety matter: the obligation belongs to the function's properties and to its safety properties.
func (vc *FnVC) callPreTags() []string {
	out := append([]string{}, vc.fnTags()...)
	for _, t := range vc.safetyTags() {
		if t != "-" && !hasTag(out, t) {
			out = append(out, t)
		}
	}
	// `option callpre-tags C10`: the callee pre- and no-panic conditions (only) also belong to
	// these properties, for functions whose other safety obligations are not claimed
	if vc.fc != nil {
		for _, t := range strings.Fields(vc.fc.Options["callpre-tags"]) {
			if !hasTag(out, t) {
				out = append(out, t)
			}
		}
	}
	return out
}

// atCallObligations: the caller's `atcall` clauses for this callee, checked in the state before the
// call with the actual arguments bound to arg_<parameter>.
func (vc *FnVC) atCallObligations(fn *ssa.Function, args []Val, st *State) {
	if vc.fc == nil || len(vc.fc.AtCalls) == 0 {
		return
	}
	id := vc.prog.contractID(fn)
	key := id
	if k := strings.Index(id, "::"); k >= 0 {
		key = id[k+2:]
	}
	for _, ac := range vc.fc.AtCalls {
		if ac.Callee != key || !vc.clauseApplies(ac.Cl) {
			continue
		}
		env := vc.newEnv(st, vc.entry)
		ps := paramList(fn.Signature)
		for i, p := range ps {
			if i < len(args) && p.Name() != "" && p.Name() != "_" {
				env.vars["arg_"+p.Name()] = args[i]
			}
		}
		t := vc.trBool(ac.Cl.E, env)
		tags := vc.fnTags()
		if len(ac.Cl.Tags) > 0 {
			tags = ac.Cl.Tags
		}
		name := ac.Cl.Name
		if name == "" {
			name = "atcall"
		}
		vc.oblige("call-pre", calleeLabel(fn)+"/"+name, t, tags, ac.Cl.Src)
	}
}

// callSitesOf: the static call sites of the function with this contract key in the function under
// proof, none of them inside a loop (nil, false otherwise).
func (vc *FnVC) callSitesOf(key string) ([]*ssa.Call, bool) {
	var out []*ssa.Call
	for _, b := range vc.fn.Blocks {
		for _, ins := range b.Instrs {
			call, ok := ins.(*ssa.Call)
			if !ok {
				continue
			}
			fn := call.Call.StaticCallee()
			if fn == nil {
				continue
			}
			id := vc.prog.contractID(fn)
			if k := strings.Index(id, "::"); k >= 0 {
				id = id[k+2:]
			}
			if id != key {
				continue
			}
			for _, li := range vc.loops {
				if li.body[b] || li.header == b {
					return nil, false
				}
			}
			out = append(out, call)
		}
	}
	return out, true
}

// calledSoFar: a condition that holds on every path to the current instruction on which the call
// has been executed.
func (vc *FnVC) calledSoFar(c *ssa.Call) string {
	b := c.Block()
	if b == vc.curBlock {
		for _, ins := range b.Instrs {
			if ins == ssa.Instruction(c) {
				return "true"
			}
			if ins == vc.curInstr {
				return "false"
			}
		}
		return "false"
	}
	r, ok := vc.reach[b]
	if !ok {
		return "false"
	}
	return r
}

// sameBase: two SSA values that denote the same object when nothing was stored in between (the
// caller's scan guarantees that): the same value, or loads of the same field of the same base.
func sameBase(a, b ssa.Value, depth int) bool {
	if a == b {
		return true
	}
	if depth == 0 {
		return false
	}
	la, ok1 := a.(*ssa.UnOp)
	lb, ok2 := b.(*ssa.UnOp)
	if !ok1 || !ok2 || la.Op != token.MUL || lb.Op != token.MUL {
		return false
	}
	fa, ok1 := la.X.(*ssa.FieldAddr)
	fb, ok2 := lb.X.(*ssa.FieldAddr)
	if !ok1 || !ok2 || fa.Field != fb.Field {
		return false
	}
	return sameBase(fa.X, fb.X, depth-1)
}
