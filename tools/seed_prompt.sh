#!/bin/sh
# usage: tools/seed_prompt.sh <id e.g. C09b> <PROP> ["a mechanism to prefer / avoid"]
# Creates a detached worktree /tmp/seed-<id> of /repo without the contract files and writes
# /tmp/prompt-<id>.txt: the task for an independent sub-agent that sees only the property text.
set -e
id=$1; prop=$2; hint=$3
wt=/tmp/seed-$id
git -C /repo worktree add --detach -f $wt HEAD >/dev/null 2>&1
find $wt -name 'verif_contracts*.go' -delete
git -C $wt add -A >/dev/null 2>&1 && git -C $wt -c user.name=seed -c user.email=seed@example.invalid commit -qm "scratch: contract files removed" >/dev/null 2>&1 || true
python3 - "$id" "$prop" "$hint" <<'PY'
import json,sys
id,prop,hint=sys.argv[1:4]
d=[json.loads(l) for l in open('/verif/properties.jsonl')]
p=[x for x in d if x['id']==prop][0]
mech='\n'.join('  - %s (%s)'%(m['name'],m['where']) for m in p['anchors']['mechanism'])
t=f'''You are helping test a verification harness for the Go library getkin/kin-openapi. Your job: make ONE small,
realistic change to the library that BREAKS the property below while the code still compiles and the
library's existing test suite still passes. Work only in the git worktree {"/tmp/seed-"+id} (a scratch copy).
Do not look at or touch /repo or /verif, and do not use `git stash` (the stash is shared between worktrees);
to try the unchanged code use `git diff > /tmp/seed-{id}.patch` then `git apply -R /tmp/seed-{id}.patch`, and
`git apply /tmp/seed-{id}.patch` to restore your change. Do not commit anything.

Property {p['id']}: {p['title']}
{p['statement']}
Quantified over: {p['quantifier']['text']}
Mechanisms the property rests on:
{mech}

Requirements for the change:
 * It is the kind of change a maintainer could plausibly make (a refactoring slip, an over-eager optimisation,
   a dropped guard, a wrong constant, a changed order) - a few lines, in non-test .go files only.
 * `go build ./...` succeeds. The existing tests still pass: run
   `GOFLAGS=-mod=mod GOPROXY=off GOSUMDB=off GOTOOLCHAIN=local go test -vet=off -count=1 ./...`
   (two tests in openapi3 need the network and fail regardless: TestIssue495WithDraft04 and
   TestExtraSiblingsInRemoteRef - ignore those two).
 * It needs something specific to manifest (a particular input shape, option or history); it must not
   break ordinary use.
 * Write a demo test file named zz_seed_demo_test.go in the package directory concerned, with test functions
   named TestSeedDemo..., that FAILS with your change and PASSES on the unchanged code (check both).
 * Write {"/tmp/seed-"+id}/SEED_NOTES.md: the change, why it breaks the property, what triggers it, the commands you ran and their outcomes.
{("Preference: "+hint) if hint else ""}
The sandbox has no network. Environment for every go command:
GOFLAGS=-mod=mod GOPROXY=off GOSUMDB=off GOTOOLCHAIN=local
Finish with the change applied (uncommitted) in the worktree, the demo test file present, and a short report.
'''
open('/tmp/prompt-%s.txt'%id,'w').write(t)
print('/tmp/prompt-%s.txt'%id)
PY
