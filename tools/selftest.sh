#!/bin/sh
# Must-fail corpus: every patch under selftest/mutants/<prop>-*.patch (and seeded/<id>/patch.diff
# whose meta.json names the property and says the check catches it) is applied to a scratch copy of
# /repo; the property's check must report a VIOLATION there.
# usage: tools/selftest.sh [PROP ...]   (default: all)      env: SELFTEST_JOBS (default 3)
cd "$(dirname "$0")/.."
export GOFLAGS=-mod=mod GOPROXY=off GOSUMDB=off GOTOOLCHAIN=local
props="$*"
jobs=${SELFTEST_JOBS:-3}
list=$(mktemp)
for p in selftest/mutants/*.patch seeded/*/patch.diff; do
  [ -f "$p" ] || continue
  case "$p" in
    selftest/*) name=$(basename "$p" .patch); prop=${name%%-*} ;;
    seeded/*) name=$(basename "$(dirname "$p")"); prop=$(python3 -c "import json,sys;d=json.load(open(sys.argv[1]));print(d['property'] if d.get('check_result',{}).get('caught',True) else 'SKIP')" "$(dirname "$p")/meta.json") ;;
  esac
  [ "$prop" = "SKIP" ] && { echo "skipped  $name (recorded as not caught)"; continue; }
  if [ -n "$props" ]; then case " $props " in *" $prop "*) ;; *) continue ;; esac; fi
  echo "$p $name $prop" >> "$list"
done
one() {
  p=$1; name=$2; prop=$3
  scratch=$(mktemp -d /tmp/govc-mut-XXXXXX)
  rsync -a --exclude .git /repo/ "$scratch/"
  if ! (cd "$scratch" && patch -p1 -s < "/verif/$p"); then echo "SELFTEST-BROKEN $name: patch does not apply"; rm -rf "$scratch"; return; fi
  if ! (cd "$scratch" && go build ./... 2>/dev/null); then echo "SELFTEST-BROKEN $name: does not compile"; rm -rf "$scratch"; return; fi
  out=$(bin/govc check -repo "$scratch" -verif /verif -property "$prop" -tier quick -workers 6 -no-evidence -replaydir "$scratch/replays" 2>&1)
  if echo "$out" | grep -q "^VIOLATION property=$prop"; then
    echo "caught   $name  ($(echo "$out" | grep '^FAILED' | head -1 | cut -c1-150))"
  else
    echo "SELFTEST-HOLE $name: mutant survives the $prop check"
  fi
  rm -rf "$scratch"
}
res=$(mktemp)
# run with limited parallelism
n=0
while read -r p name prop; do
  ( one "$p" "$name" "$prop" >> "$res" ) &
  n=$((n+1))
  if [ $((n % jobs)) -eq 0 ]; then wait; fi
done < "$list"
wait
sort "$res"
total=$(wc -l < "$list"); bad=$(grep -c "SELFTEST-HOLE\|SELFTEST-BROKEN" "$res")
echo "selftest: $total mutants, fail=$bad"
rm -f "$list" "$res"
[ "$bad" -eq 0 ]
