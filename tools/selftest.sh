#!/bin/sh
# Must-fail corpus: every patch under selftest/mutants/<prop>-*.patch (and seeded/<id>/patch.diff
# whose meta.json names the property) is applied to a scratch copy of /repo; the property's check
# must report a VIOLATION there. usage: tools/selftest.sh [PROP ...]   (default: all)
cd "$(dirname "$0")/.."
export GOFLAGS=-mod=mod GOPROXY=off GOSUMDB=off GOTOOLCHAIN=local
props="$*"
fail=0; n=0
for p in selftest/mutants/*.patch seeded/*/patch.diff; do
  [ -f "$p" ] || continue
  case "$p" in
    selftest/*) name=$(basename "$p" .patch); prop=${name%%-*} ;;
    seeded/*) name=$(basename "$(dirname "$p")"); prop=$(python3 -c "import json,sys;print(json.load(open(sys.argv[1]))['property'])" "$(dirname "$p")/meta.json") ;;
  esac
  if [ -n "$props" ]; then case " $props " in *" $prop "*) ;; *) continue ;; esac; fi
  scratch=$(mktemp -d /tmp/govc-mut-XXXXXX)
  rsync -a --exclude .git /repo/ "$scratch/"
  if ! (cd "$scratch" && patch -p1 -s < "$OLDPWD/$p"); then echo "SELFTEST-BROKEN $name: patch does not apply"; fail=1; rm -rf "$scratch"; continue; fi
  if ! (cd "$scratch" && go build ./... 2>/dev/null); then echo "SELFTEST-BROKEN $name: does not compile"; fail=1; rm -rf "$scratch"; continue; fi
  out=$(bin/govc check -repo "$scratch" -verif /verif -property "$prop" -tier quick -no-evidence -replaydir "$scratch/replays" 2>&1)
  n=$((n+1))
  if echo "$out" | grep -q "^VIOLATION property=$prop"; then
    echo "caught   $name  ($(echo "$out" | grep '^FAILED' | head -1 | cut -c1-150))"
  else
    echo "SELFTEST-HOLE $name: mutant survives the $prop check"; fail=1
  fi
  rm -rf "$scratch"
done
echo "selftest: $n mutants, fail=$fail"
exit $fail
