#!/usr/bin/env python3
# usage: tools/seed_meta.py <seed dir name e.g. C04-C04a> "<what the change needs to manifest>"
# writes seeded/<dir>/meta.json from the files tools/take_seed.sh left there
import json, sys, os
d = '/verif/seeded/' + sys.argv[1]
rd = lambda n: open(os.path.join(d, n)).read() if os.path.exists(os.path.join(d, n)) else ''
govc = [l for l in rd('.govc.txt').splitlines()]
failed = [l[:200] for l in govc if l.startswith('FAILED')]
meta = {
    'property': sys.argv[1][:3], 'id': sys.argv[1], 'needs_to_manifest': sys.argv[2],
    'produced_by': 'independent sub-agent given only the property text (and the list of mechanisms from the property anchors) and a scratch worktree without contract files',
    'confirmed': {
        'builds': 'BUILD-OK' in rd('.build.txt'),
        'demo_passes_on_unchanged_tree': rd('.demo_clean.txt').strip().startswith('ok'),
        'demo_fails_with_change': 'FAIL' in rd('.demo_mut.txt'),
        'suite_with_change': rd('.suite.txt').strip(),
    },
    'what_was_run': ['tools/take_seed.sh (apply patch.diff to a scratch copy of /repo, go build ./..., demo test with and without the change, the 955-test baseline, bin/govc check on the changed copy)'],
    'check_result': {'caught': bool(failed), 'first_failed_obligations': failed[:4],
                     'replay_confirmed': any('replay: confirmed' in l for l in govc)},
}
if len(sys.argv) > 3:
    meta['note'] = sys.argv[3]
json.dump(meta, open(os.path.join(d, 'meta.json'), 'w'), indent=1)
print(json.dumps(meta['confirmed']), meta['check_result']['caught'])
