#!/bin/sh
# usage: tools/take_seed.sh <worktree-id e.g. C07a> <PROP> : verifies a sub-agent's change and files it under seeded/
set -e
id=$1; prop=$2; wt=/tmp/seed-$id; dst=/verif/seeded/$prop-$id
export GOFLAGS=-mod=mod GOPROXY=off GOSUMDB=off GOTOOLCHAIN=local
mkdir -p $dst
git -C $wt diff -- . ':!*zz_seed_demo_test.go' > $dst/patch.diff
demo=$(cd $wt && git ls-files --others --exclude-standard | grep zz_seed_demo_test.go | head -1)
cp $wt/$demo $dst/zz_seed_demo_test.go
[ -f $wt/SEED_NOTES.md ] && cp $wt/SEED_NOTES.md $dst/
pkgdir=$(dirname $demo)
S=$(mktemp -d /tmp/govc-seed-XXXXXX)
rsync -a --exclude .git /repo/ $S/
cp $dst/zz_seed_demo_test.go $S/$pkgdir/
echo "== demo on unchanged /repo copy (must pass)"
(cd $S && go test -vet=off -count=1 -run 'Seed' ./$pkgdir/ 2>&1 | tail -3) | tee $dst/.demo_clean.txt
(cd $S && patch -p1 -s < $dst/patch.diff)
echo "== build with change"
(cd $S && go build ./... && echo BUILD-OK) | tee $dst/.build.txt
echo "== demo with change (must fail)"
(cd $S && go test -vet=off -count=1 -run 'Seed' ./$pkgdir/ 2>&1 | tail -5) | tee $dst/.demo_mut.txt
echo "== suite with change"
rm $S/$pkgdir/zz_seed_demo_test.go
(cd $S && (go test -mod=mod -json -vet=off -count=1 ./... 2>/dev/null > $S/.t.json || true); python3 - $S/.t.json <<'PY'
import json,sys
base=json.load(open('/root/.vp/BASELINE.json')); res={}
for line in open(sys.argv[1]):
    try: e=json.loads(line)
    except Exception: continue
    if e.get('Test') and e.get('Action') in('pass','fail','skip'): res[e['Package']+'::'+e['Test']]=e['Action']
missing=[t for t in base['stable_pass'] if res.get(t)!='pass']
print('suite: %d/%d stable tests pass'%(len(base['stable_pass'])-len(missing),len(base['stable_pass'])), missing[:5])
PY
) | tee $dst/.suite.txt
echo "== govc $prop on the changed copy"
(cd /verif && bin/govc check -repo $S -verif /verif -property $prop -tier quick -no-evidence -replaydir $S/replays 2>&1 | grep -E "^FAILED|^VIOLATION|^replay|^govc:" | cut -c1-260 | head -12) | tee $dst/.govc.txt
rm -rf $S
