#!/usr/bin/env python3
"""Regenerates /verif/MANIFEST.json from the table below (kept here so that the manifest is
always schema-valid and consistent with what ./check implements)."""
import json, os, subprocess
ROOT = os.path.dirname(os.path.dirname(os.path.abspath(__file__)))
BASE = json.load(open('/root/.vp/BASELINE.json'))

# property -> (level text, level_note, design_ref)
CLAIMED = json.load(open(os.path.join(ROOT, 'tools', 'claimed.json')))
NA = json.load(open(os.path.join(ROOT, 'tools', 'not_applicable.json')))

checks = []
for pid in sorted(CLAIMED):
    c = CLAIMED[pid]
    checks.append({
        "property_id": pid,
        "quick_cmd": f"./check {pid} quick",
        "thorough_cmd": f"./check {pid} thorough",
        "evidence_file": f"/verif/evidence/{pid}.json",
        "replay_cmd_template": "./check replay {path}",
        "engine": "govc",
        "level_claimed": {"category": c.get("category", "proof"), "text": c["text"], "design_ref": c.get("design_ref", "DESIGN.md section 4")},
        "level_note": c["note"],
        "technique": "contract-based deductive verification: weakest-precondition VCs generated from go/ssa of the real functions, contracts in //go:build verif comment files, discharged by z3/cvc5",
    })
hooks_commits = subprocess.run(["git", "-C", "/repo", "log", "--format=%H", "--", "*verif_contracts*"], capture_output=True, text=True).stdout.split()
m = {
    "version": 1,
    "setup_cmd": "cd /verif/engine && GOFLAGS=-mod=vendor GOPROXY=off GOSUMDB=off GOTOOLCHAIN=local go build -o ../bin/govc ./cmd/govc",
    "hooks": {
        "guard": "verif",
        "enable": "go build -tags verif (govc loads /repo with -tags=verif; the guarded files are comment-only contract files verif_contracts_*.go)",
        "baseline_off_cmd": BASE["cmd"],
        "source_commits": hooks_commits,
        "add_only": True,
    },
    "engines": [{"name": "govc", "path": "/verif/engine", "serves_properties": sorted(CLAIMED),
                 "kind_free_text": "own deductive verifier for Go: VC generation over go/ssa (x/tools v0.29.0, vendored), contracts as //@ comments, SMT portfolio z3 5.1.0 / z3 4.8.12 / cvc5 1.0"}],
    "checks": checks,
    "not_applicable": [{"property_id": k, "reason": NA[k]} for k in sorted(NA) if k not in CLAIMED],
    "notes": "See DESIGN.md. Known findings: known_findings.json. Seeded changes: seeded/. Must-fail corpus: selftest/.",
}
json.dump(m, open(os.path.join(ROOT, 'MANIFEST.json'), 'w'), indent=1)
print("claimed:", sorted(CLAIMED), "n/a:", [x["property_id"] for x in m["not_applicable"]])
