#!/bin/sh
# usage: tools/recheck_seed.sh <seed dir e.g. C06-C06c> [PROP]  : re-runs the property's quick check on a
# scratch copy of /repo with the seeded change applied and rewrites .govc.txt (then run seed_meta.py)
set -e
d=/verif/seeded/$1; prop=${2:-$(echo $1 | cut -c1-3)}
export GOFLAGS=-mod=mod GOPROXY=off GOSUMDB=off GOTOOLCHAIN=local
S=$(mktemp -d /tmp/govc-seed-XXXXXX)
rsync -a --exclude .git /repo/ $S/
(cd $S && patch -p1 -s < $d/patch.diff && go build ./...)
(cd /verif && bin/govc check -repo $S -verif /verif -property $prop -tier quick -no-evidence -replaydir $S/replays 2>&1 | grep -E "^FAILED|^VIOLATION|^replay|^govc:" | cut -c1-260 | head -12) | tee $d/.govc.txt
rm -rf $S
