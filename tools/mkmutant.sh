#!/bin/sh
# usage: tools/mkmutant.sh <name> <file relative to /repo> <sed expression>   -> selftest/mutants/<name>.patch
S=$(mktemp -d /tmp/govc-mk-XXXXXX); mkdir -p $S/a $S/b
d=$(dirname "$2"); mkdir -p $S/a/$d $S/b/$d
cp /repo/$2 $S/a/$2; cp /repo/$2 $S/b/$2
sed -i "$3" $S/b/$2
(cd $S && diff -u a/$2 b/$2) > /verif/selftest/mutants/$1.patch
n=$(grep -c '^[-+][^-+]' /verif/selftest/mutants/$1.patch)
echo "$1: $n changed lines"
[ "$n" -eq 0 ] && { echo "ERROR: empty mutant, removed"; rm -f /verif/selftest/mutants/$1.patch; }
rm -rf $S
