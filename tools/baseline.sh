#!/bin/sh
# Runs the repository's own test suite with the verif guard OFF and compares with BASELINE.json.
export GOFLAGS=-mod=mod GOPROXY=off GOSUMDB=off GOTOOLCHAIN=local
out=$(mktemp)
(cd /repo && go test -mod=mod -json -vet=off -count=1 -timeout 25m ./... > "$out" 2>/dev/null)
python3 - "$out" <<'PY'
import json,sys
base=json.load(open('/root/.vp/BASELINE.json'))
res={}
for line in open(sys.argv[1]):
    try: e=json.loads(line)
    except Exception: continue
    if e.get('Test') and e.get('Action') in('pass','fail','skip'):
        res[e['Package']+'::'+e['Test']]=e['Action']
missing=[t for t in base['stable_pass'] if res.get(t)!='pass']
print('baseline: %d/%d stable tests pass'%(len(base['stable_pass'])-len(missing),len(base['stable_pass'])))
for t in missing[:20]: print('  NOT PASSING:',t,res.get(t))
sys.exit(1 if missing else 0)
PY
rc=$?; rm -f "$out"; exit $rc
